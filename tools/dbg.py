#!/venv/bin/python
"""tools/dbg.py Cxx index [--seed V] : regenerate one run and execute it with a traceback watchdog."""
import sys, os, json, random, faulthandler
sys.path.insert(0, os.path.dirname(os.path.dirname(os.path.abspath(__file__))))
from simlib import core
pid = sys.argv[1]; idx = int(sys.argv[2]); tier = sys.argv[3] if len(sys.argv) > 3 else "quick"
prop = core.load_prop(pid)
seed = core.run_seed(int(os.environ.get("VERIF_SEED", "0")), pid, idx)
sc = prop.generate(random.Random(seed), tier); sc["seed"] = seed; sc["index"] = idx
print(json.dumps(sc))
faulthandler.dump_traceback_later(8, exit=True)
out = prop.execute(sc)
print("viol", out.viol); print("digest", out.digest); print("probes", dict(out.probes)); print("info", out.info)
