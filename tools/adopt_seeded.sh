#!/bin/bash
# tools/adopt_seeded.sh <Cxx> [suffix]  — verify a sub-agent's change in its scratch worktree /tmp/wt_<Cxx>
# (suite green with it, demo fails with it and passes without), store it under seeded/<Cxx>[suffix]/ and run our check against it.
ID=$1; SUF=$2; WT=/tmp/wt_$ID; NAME=$ID$SUF
cd $WT || exit 2
[ -f patch_$ID.diff ] || git diff -- reactivex > patch_$ID.diff
git diff -- reactivex > /tmp/cur_$ID.diff
[ -s /tmp/cur_$ID.diff ] || { echo "$NAME: no change applied in worktree"; exit 2; }
suite=$(timeout 900 /venv/bin/python -m pytest -q -x -p no:cacheprovider -n 6 2>&1 | tail -1)
timeout 120 /venv/bin/python demo_$ID.py > /tmp/demo_with_$ID.log 2>&1; with=$?
git checkout -q -- reactivex   # (git stash is shared between the worktrees of one repository: not used)
timeout 120 /venv/bin/python demo_$ID.py > /tmp/demo_without_$ID.log 2>&1; without=$?
git apply /tmp/cur_$ID.diff
echo "$NAME: suite='$suite' demo_with_change_rc=$with demo_without_rc=$without"
if ! echo "$suite" | grep -q "1529 passed" || [ $with -eq 0 ] || [ $without -ne 0 ]; then echo "$NAME: NOT CONFIRMED"; exit 1; fi
mkdir -p /verif/seeded/$NAME
cp /tmp/cur_$ID.diff /verif/seeded/$NAME/patch.diff
cp demo_$ID.py /verif/seeded/$NAME/demo.py
cd /verif
out=$(tools/mutant.sh seeded/$NAME/patch.diff $ID 2>&1 | tail -4)
caught=false; echo "$out" | grep -q "exit=1" && caught=true
rule=$(echo "$out" | grep -o "violation rule=[a-z-]*" | head -1)
echo "$NAME: quick check caught=$caught $rule"
echo "$out" | grep "violation" | head -1 | cut -c1-400
/venv/bin/python - <<PY
import json
meta={"property":"$ID","files":sorted(set(l[6:].strip() for l in open("/verif/seeded/$NAME/patch.diff") if l.startswith("+++ b/"))),
      "confirmed":{"suite_with_change":"$suite","demo_exit_with_change":$with,"demo_exit_without_change":$without,
                   "ran":"tools/adopt_seeded.sh $ID $SUF (suite + demo with and without the change in the agent's scratch worktree; bin/check $ID --tier quick against a patched scratch copy)"},
      "caught_by_quick_check": $( [ $caught = true ] && echo True || echo False ), "rule":"$rule".replace("violation rule=","")}
try:
    old=json.load(open("/verif/seeded/$NAME/meta.json")); meta["needs"]=old.get("needs",""); meta["description"]=old.get("description","")
except Exception: pass
json.dump(meta, open("/verif/seeded/$NAME/meta.json","w"), indent=1)
PY
