#!/bin/bash
# tools/run_all.sh [seed ...] : run every claimed check's quick command for each seed; report alarms
cd /verif
IDS=$(/venv/bin/python -c "import json;print(' '.join(c['property_id'] for c in json.load(open('MANIFEST.json'))['checks']))")
SEEDS="${@:-0}"
for s in $SEEDS; do
  for id in $IDS; do
    out=$(VERIF_SEED=$s timeout 600 bin/check $id --tier quick 2>&1); rc=$?
    echo "seed=$s $id rc=$rc $(echo "$out" | tail -1 | cut -c1-150)"
    if [ $rc -ne 0 ]; then echo "$out" | grep -E "violation|VIOLATION|HARNESS" | head -4 | cut -c1-700; fi
  done
done
