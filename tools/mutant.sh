#!/bin/bash
# tools/mutant.sh <patch-file | sed-expr@file> <Cxx> [extra check args]  — run a check against a patched scratch copy of /repo
set -e
PATCH="$1"; shift
D=$(mktemp -d /tmp/mut_XXXXXX)
trap 'rm -rf "$D"' EXIT
cp -r /repo/reactivex "$D/reactivex"
if [[ "$PATCH" == *@* ]]; then
  EXPR="${PATCH%@*}"; FILE="${PATCH##*@}"
  sed -i "$EXPR" "$D/$FILE"
  (cd "$D" && diff -u /repo/$FILE $FILE | head -20) || true
else
  case "$PATCH" in /*) ;; *) PATCH="$(pwd)/$PATCH";; esac
  (cd "$D" && patch -p1 -s < "$PATCH") || { echo "patch failed"; exit 3; }
fi
VERIF_EVIDENCE_DIR="$D/evidence" VERIF_REPO="$D" /verif/bin/check "$@" | tail -4
echo "exit=${PIPESTATUS[0]}"
