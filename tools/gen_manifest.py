#!/venv/bin/python
"""Regenerate MANIFEST.json from the property modules present under props/."""
import glob, json, os, sys
ROOT = os.path.dirname(os.path.dirname(os.path.abspath(__file__)))
sys.path.insert(0, ROOT)
from simlib import core

NA = {
    "C36": "time conversions (to_seconds/to_datetime/to_timedelta) are pure functions of one argument: there is no schedule, clock advance, fault or interleaving for a simulator to control; a conversion defect would still surface indirectly through the datetime-clock configurations of C15/C28/C35",
}
ids = [json.loads(l)["id"] for l in open(os.path.join(ROOT, "properties.jsonl"))]
checks, engines, na = [], {}, []
for pid in ids:
    path = os.path.join(ROOT, "props", pid.lower() + ".py")
    if pid in NA:
        na.append({"property_id": pid, "reason": NA[pid]})
        continue
    if not os.path.exists(path):
        na.append({"property_id": pid, "reason": "not yet claimed: check under construction (see DESIGN.md section 7 for the plan)"})
        continue
    p = core.load_prop(pid)
    eng = p.engine.split(" ")[0]
    engines.setdefault(eng, []).append(pid)
    checks.append({
        "property_id": pid,
        "quick_cmd": "bin/check %s --tier quick" % pid,
        "thorough_cmd": "bin/check %s --tier thorough" % pid,
        "evidence_file": "evidence/%s.json" % pid,
        "replay_cmd_template": "bin/check %s --replay {path}" % pid,
        "engine": eng,
        "level_claimed": {
            "category": p.level,
            "text": getattr(p, "claim", None) or ("seeded search over many deterministic simulated runs; " + p.rule),
            "design_ref": "DESIGN.md section 7, " + pid,
        },
        "level_note": getattr(p, "note", None) or ("; ".join(getattr(p, "assumptions", [])) or "sampling, not proof: a clean batch is evidence only"),
        "technique": getattr(p, "technique", "deterministic simulation with fault injection (seeded scenario and schedule search, %s engine)" % eng),
    })
kinds = {"VT": "virtual-time discrete-event simulation on the repo's own TestScheduler/VirtualTimeScheduler/HistoricalScheduler with logged sim sources, fault plans and dispose points (simlib/vt.py)",
         "TH": "controlled-thread simulation: real threads run one at a time under a seeded scheduler (baton passing, sys.settrace pre-emption points, simulated locks/conditions/timers/clock) (simlib/th.py)",
         "AIO": "deterministic asyncio event loop (BaseEventLoop subclass on the simulated clock) (simlib/aio.py)"}
man = {
    "version": 1,
    "setup_cmd": "/venv/bin/python -c \"import sys; sys.path.insert(0, '/verif'); import simlib.core\"",
    "hooks": {
        "guard": "REACTIVEX_RXPY_VERIF",
        "enable": "no source hooks are needed: every seam is a module global or an injected parameter and is taken from outside at run time (DESIGN.md section 2); the variable is not read anywhere",
        "baseline_off_cmd": "cd /repo && /venv/bin/python -m pytest -ra -q -p no:cacheprovider --timeout=900 --continue-on-collection-errors",
        "source_commits": [],
        "add_only": True,
    },
    "engines": [{"name": k, "path": "simlib/" + k.lower() + ".py", "serves_properties": v, "kind_free_text": kinds.get(k, k)} for k, v in sorted(engines.items())],
    "checks": checks,
    "not_applicable": na,
    "notes": "bin/check <id> [--tier quick|thorough] [--replay FILE]; VERIF_SEED and VERIF_TIER honoured; exit 0 held / 1 VIOLATION / 2 HARNESS-ERROR. Genuine defects found and repaired are listed in known_findings.json ('fixed'); open findings print KNOWN-FINDING lines.",
}
json.dump(man, open(os.path.join(ROOT, "MANIFEST.json"), "w"), indent=1)
print("checks:", [c["property_id"] for c in checks]); print("not claimed:", [n["property_id"] for n in na])
