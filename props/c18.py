"""C18 Windows and buffers partition the source correctly."""
from reactivex import operators as ops

from simlib import catalog, models, timemodels as tm, vt
from simlib.core import Outcome

KINDS = ["count", "time", "time_or_count", "boundaries", "when", "toggle"]


class MWin:
    def __init__(self, t):
        self.open_t = t
        self.events = []
        self.closed = False


def pick_fn(sc):
    pool = sc["pool"]
    return lambda v: pool[vt.h(v) % len(pool)]


def window_model(eng, sc, on_open, on_close):
    """Shared window machine.  on_open(win) / on_close(win, kind) are called by the rules below."""
    kind, sid = sc["kind"], sc["src"]
    st = {"open": [], "n": 0, "id": 0}

    def open_win():
        w_ = MWin(eng.now)
        st["open"].append(w_)
        on_open(w_)
        return w_

    def close_win(w_, k="C", v=None):
        if not w_.closed:
            w_.closed = True
            w_.events.append((eng.now, k, v))
            if w_ in st["open"]:
                st["open"].remove(w_)
            on_close(w_, k)

    def deliver(v):
        for w_ in list(st["open"]):
            w_.events.append((eng.now, "N", v))

    def terminal(k, v=None):
        for w_ in list(st["open"]):
            close_win(w_, k, v)
        eng.emit(k, v)

    if kind == "count":
        count, skip = sc["count"], sc["skip"] or sc["count"]
        open_win()

        def on_next(v):
            deliver(v)
            c = st["n"] - count + 1
            if c >= 0 and c % skip == 0 and st["open"]:
                close_win(st["open"][0])
            st["n"] += 1
            if st["n"] % skip == 0:
                open_win()

    elif kind == "time":
        span, shift = float(sc["span"]), float(sc["shift"] or sc["span"])
        t0 = eng.now

        def schedule_open(k):
            def fire():
                if eng.done:
                    return
                w_ = open_win()
                eng.after((t0 + k * shift + span) - eng.now, lambda: close_win(w_))
                schedule_open(k + 1)
            eng.after((t0 + k * shift) - eng.now, fire)

        w0 = open_win()
        eng.after(span, lambda: close_win(w0))
        schedule_open(1)

        def on_next(v):
            deliver(v)

    elif kind == "time_or_count":
        span, count = float(sc["span"]), sc["count"]

        def arm(w_):
            my = st["id"]

            def fire():
                if st["id"] == my and not eng.done:
                    roll()
            eng.after(span, fire)

        def roll():
            st["id"] += 1
            st["n"] = 0
            close_win(st["open"][0])
            arm(open_win())

        arm(open_win())

        def on_next(v):
            deliver(v)
            st["n"] += 1
            if st["n"] == count:
                roll()

    elif kind == "boundaries":
        open_win()

        def bh(k, v):
            if k == "N":
                close_win(st["open"][0])
                open_win()
            else:
                terminal(k, v)  # what happens when the boundary source terminates is enveloped by the caller (truncation)

        def on_next(v):
            deliver(v)

    elif kind == "when":
        armed = [0]

        def arm():
            holder = {"fired": False}
            sid = sc["pool"][armed[0] % len(sc["pool"])]
            armed[0] += 1

            def ch(k, v):
                if holder["fired"]:
                    return  # only the closing observable's first notification counts
                holder["fired"] = True
                if k == "E":
                    terminal("E", v)
                    return
                if holder.get("s") is not None:
                    holder["s"].cancel()
                if not eng.done:
                    close_win(st["open"][0])
                    open_win()
                    arm()
            holder["s"] = eng.subscribe(sid, ch)
            if holder["fired"]:
                holder["s"].cancel()  # it fired inside its own subscribe()

        open_win()

        def on_next(v):
            deliver(v)

    else:  # toggle
        pick = pick_fn(sc)

        def oh(k, v):
            if k == "N":
                w_ = open_win()
                holder = {}

                def ch(k2, v2):
                    if k2 == "E":
                        terminal("E", v2)
                        return
                    if holder.get("s") is not None:
                        holder["s"].cancel()
                    close_win(w_)
                holder["s"] = eng.subscribe(pick(v), ch)
            elif k == "E":
                terminal("E", v)
            # completion of the openings source: no further windows (not stated: enveloped by truncation)

        def on_next(v):
            deliver(v)

    # subscription order as in the operators: source first for count/time; boundaries/openings after the source
    tm.single(eng, sid, on_next, lambda e: terminal("E", e), lambda: terminal("C"))
    if kind == "when" and not eng.done:
        arm()  # the first closing observable is subscribed after the source
    if kind == "boundaries" and not eng.done:
        eng.subscribe(sc["boundaries"], bh)
    if kind == "toggle" and not eng.done:
        eng.subscribe(sc["openings"], oh)


class Prop:
    id = "C18"
    level = "exploration"
    engine = "VT"
    quick_runs = 60000
    thorough_runs = 2500000
    rule = ("one generated cold/hot/sync timeline through window and buffer with count(+skip, including skip > count and skip < count), "
            "time(+shift, overlapping and gapped), time-or-count, boundaries, closing selector and toggle rules (boundary / opening / "
            "closing sources from a cold pool), every emitted window subscribed on receipt by a child recorder; compared with an "
            "event-driven window machine: each element delivered to exactly the windows open when it arrives, windows open and close "
            "when their rule dictates, all open windows end with the source's terminal kind, each buffer equals its window's contents. "
            "For count windows only contents and terminals are compared (opening instants are not stated). Same-instant ties between a "
            "source event and an operator timer are accepted under any resolution; runs are truncated where a boundary / opening source "
            "terminates (not stated). Distinct = (kind, args, output); non-trivial = at least two windows or buffers.")
    assumptions = ["tie policy", "closing / boundary / opening sources have a positive first event time"]
    stubs = []

    def generate(self, rng, tier):
        kind = rng.choice(KINDS)
        ctx = catalog.Ctx(rng, hot_p=0.45, falsy_p=0.25, sync_p=0.1)
        src = ctx.new_source(maxn=8)
        sc = {"clock": rng.choice(["test", "test", "historical"]), "kind": kind, "buffer": rng.random() < 0.5, "src": src, "sub_t": 205, "horizon": 1200}
        if kind == "count":
            sc["count"], sc["skip"] = rng.randrange(1, 5), rng.choice([None, 1, 2, 3, 5])
        elif kind == "time":
            sc["span"], sc["shift"] = rng.choice([20, 30, 50, 80]), rng.choice([None, 20, 30, 50, 100])
        elif kind == "time_or_count":
            sc["span"], sc["count"] = rng.choice([20, 30, 50, 80]), rng.randrange(1, 4)
        elif kind == "boundaries":
            sc["boundaries"] = ctx.new_source(rng.choice(["cold", "hot"]), prefix="p", maxn=5, positive_first=True)
        elif kind == "when":
            sc["pool"] = [ctx.new_source("cold", prefix="p", maxn=1, positive_first=True)]
            if not ctx.sources[-1]["events"]:
                ctx.sources[-1]["events"] = [[40, "C"]]
            if rng.random() < 0.3:
                # every other closing observable fires inside its own subscribe() (a BehaviorSubject-like closing): the window it
                # guards closes at once, the next one is guarded by the ordinary, later closing
                sc["when_sync"] = True
                sid = "p%d" % len(ctx.sources)
                ctx.sources.append({"id": sid, "kind": "sync", "events": rng.choice([[[0, "N", 1]], [[0, "C"]], [[0, "N", 1], [0, "C"]]])})
                sc["pool"] = [sid, sc["pool"][0]] if rng.random() < 0.5 else [sc["pool"][0], sid]
        else:
            sc["openings"] = ctx.new_source(rng.choice(["cold", "hot"]), prefix="p", maxn=4, positive_first=True)
            sc["pool"] = [ctx.new_source("cold", prefix="p", maxn=1, positive_first=True) for _ in range(2)]
        sc["sources"] = ctx.sources
        off = rng.choice([None, None, None, 37, 123, 411])
        if off and kind not in ("boundaries", "toggle") and not sc.get("when_sync"):
            sc["sub2_t"] = 205 + off
        elif not sc["buffer"] and kind != "toggle" and rng.random() < 0.3:
            sc["outer_take"] = rng.choice([1, 2, 3])
        return sc

    def build(self, w, sc):
        if sc.get("outer_take"):
            # the consumer takes the first k windows and lets go of the outer sequence: a window that is still open (and subscribed)
            # keeps receiving its elements and closes at its own boundary
            inner = dict(sc)
            inner.pop("outer_take")
            return self.build(w, inner).pipe(ops.take(sc["outer_take"]))
        k, buf = sc["kind"], sc["buffer"]
        s = w.sources[sc["src"]]
        if k == "count":
            return s.pipe((ops.buffer_with_count if buf else ops.window_with_count)(sc["count"], sc["skip"]))
        if k == "time":
            return s.pipe((ops.buffer_with_time if buf else ops.window_with_time)(float(sc["span"]), None if sc["shift"] is None else float(sc["shift"])))
        if k == "time_or_count":
            return s.pipe((ops.buffer_with_time_or_count if buf else ops.window_with_time_or_count)(float(sc["span"]), sc["count"]))
        if k == "boundaries":
            return s.pipe((ops.buffer if buf else ops.window)(w.sources[sc["boundaries"]]))
        if k == "when":
            calls = [0]

            def closing():
                calls[0] += 1
                return w.sources[sc["pool"][(calls[0] - 1) % len(sc["pool"])]]
            return s.pipe((ops.buffer_when if buf else ops.window_when)(closing))
        pick = pick_fn(sc)
        return s.pipe((ops.buffer_toggle if buf else ops.window_toggle)(w.sources[sc["openings"]], lambda v: w.sources[pick(v)]))

    def model(self, eng, sc):
        buf = sc["buffer"]
        eng.wins = []

        def on_open(w_):
            eng.wins.append(w_)
            if not buf:
                eng.emit("N", w_)

        def on_close(w_, k):
            if buf and k == "C":
                vals = [v for _, kk, v in w_.events if kk == "N"]
                if vals or sc["kind"] != "count":
                    eng.emit("N", vals)

        window_model(eng, sc, on_open, on_close)

    def cut_time(self, sc):
        """instant after which the run is not compared: a boundary / opening source terminated (not stated)"""
        for key in ("boundaries", "openings"):
            if key in sc:
                spec = [s for s in sc["sources"] if s["id"] == sc[key]][0]
                for e in spec["events"]:
                    if e[1] in "CE":
                        return (sc["sub_t"] + e[0]) if spec["kind"] == "cold" else e[0]
        return None

    def execute(self, sc):
        out = self.run_once(sc, None)
        if out.viol and out.viol[0][0] == "model-mismatch" and sc["kind"] == "toggle":
            # does everything up to the source's terminal instant match?  Then the only discrepancy is that the
            # open windows / the result are not ended with the source's terminal kind (a distinct rule).
            spec = [s for s in sc["sources"] if s["id"] == sc["src"]][0]
            term = [e for e in spec["events"] if e[1] in "CE"]
            if term:
                t_end = (sc["sub_t"] + term[0][0]) if spec["kind"] == "cold" else (sc["sub_t"] if spec["kind"] == "sync" else term[0][0])
                c0 = self.cut_time(sc)
                o2 = self.run_once(sc, t_end if c0 is None else min(c0, t_end))
                if not o2.viol:
                    out.viol = [("open-windows-not-ended", out.viol[0][1].split(": got")[0] + ": windows/result are not ended when the source terminates at t=%s (everything before matches the reference)" % t_end)]
        return out

    def run_once(self, sc, cut_override):
        out = Outcome()
        desc = "%s %s args=%s sources=%s" % ("buffer" if sc["buffer"] else "window", sc["kind"], {k: sc[k] for k in ("count", "skip", "span", "shift") if k in sc},
                                             [(s["id"], s["kind"], s["events"]) for s in sc["sources"]])
        out.probes["kind:%s:%s" % ("buffer" if sc["buffer"] else "window", sc["kind"])] += 1
        cut = self.cut_time(sc) if cut_override is None else cut_override
        count_form = sc["kind"] == "count"

        def trunc(evs):
            if cut is None:
                return evs
            res = []
            for e in evs:
                if e[0] >= cut:
                    break
                if e[1] == "N" and isinstance(e[2], tuple) and e[2] and e[2][0] == "inner":
                    e = (e[0], "N", ("inner", tuple(x for x in e[2][1] if x[0] < cut)))
                res.append(e)
            return res

        def strip(evs):
            if not count_form:
                return evs
            return [((None if (e[1] == "N" and not sc["buffer"]) else e[0]),) + tuple(e[1:]) for e in evs]

        def got_fn(rec):
            return strip(trunc(rec.timed()))

        def want_fn(eng):
            res = []
            for t, k, v in eng.out:
                if k == "N" and isinstance(v, MWin):
                    res.append((float(t), "N", ("inner", tuple(models.norm(v.events)))))
                elif k == "N":
                    res.append((float(t), "N", vt.vkey(v)))
                elif k == "E":
                    res.append((float(t), "E", models.ekey(v)))
                else:
                    res.append((float(t), "C", None))
            if sc.get("outer_take"):
                nth = [i for i, e in enumerate(res) if e[1] == "N"][sc["outer_take"] - 1:sc["outer_take"]]
                if nth:
                    res = res[:nth[0] + 1] + [(res[nth[0]][0], "C", None)]
            return strip(trunc(res))

        w, rec, wants = tm.compare(sc, self.build, self.model, out, desc, got_fn=got_fn, want_fn=want_fn, follow=True)
        for r in rec.all_recorders():
            g = vt.grammar_violation(r)
            if g:
                out.bad("grammar", "%s: %s" % (desc, g))
        nwin = len([e for e in rec.events if e[2] == "N"])
        out.nontrivial = nwin >= 2
        out.digest = (sc["kind"], sc["buffer"], repr({k: sc[k] for k in ("count", "skip", "span", "shift") if k in sc}), repr(rec.timed())[:300])
        out.info = {"kind": sc["kind"], "buffer": sc["buffer"], "windows_or_buffers": nwin}
        return out

    def signature(self, sc, rule, msg):
        src = [s for s in sc.get("sources", []) if s["id"] == sc.get("src")]
        terminates = bool(src) and any(e[1] in "CE" for e in src[0]["events"])
        return {"rule": rule, "kind": sc.get("kind"), "source_terminates": terminates}


PROP = Prop()
