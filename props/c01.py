"""C01 Every subscriber sees a well-formed notification sequence."""
from simlib import catalog, pipe
from simlib.core import Outcome


class Prop:
    id = "C01"
    level = "exploration"
    engine = "VT"
    quick_runs = 100000
    thorough_runs = 2000000
    rule = ("seeded operator pipelines (depth 1-4 over 1-4 cold/hot/sync sources, %d catalogue rows) with non-conforming sources "
            "(events after the terminal, double terminals), rogue sources that ignore their disposal, sources that call their observer from inside the disposal of their subscription, InjectedFault at the k-th call of "
            "operator callbacks and of the subscriber's own callbacks, a subscriber whose terminal handler pushes one more element into a hot source of the pipeline, and re-entrant dispose; every recorder (root, windows, groups) "
            "must see on_next* (on_error|on_completed)? and nothing afterwards. Distinct = (operators, root notification kinds, faults fired); "
            "non-trivial = at least one notification and at least one of: fault fired, non-conforming or rogue source.") % len(catalog.ROWS)
    assumptions = ["single-threaded virtual time; concurrent emitters are C43's", "an exception raised by the subscriber's own callback may travel back to the emitter (caught and logged by the harness)"]
    stubs = []

    def generate(self, rng, tier):
        depth = rng.choice([0, 1, 1, 2, 2, 3, 4])
        sc = pipe.gen(rng, depth, nonconforming_p=0.35, rogue_p=0.25)
        expanding = "expand_take" in catalog.ops_of(sc["program"])  # expand over an inner that emits inside subscribe() never leaves the instant
        for s in sc["sources"]:
            if s["kind"] == "cold" and rng.random() < 0.25 and not (expanding and s["id"].startswith("p")):
                s["kind"] = "syncthen"  # first event synchronously inside subscribe(), uncaught; the rest later
            if rng.random() < 0.12:
                s["on_dispose"] = rng.choice(["N", "C", "E"])  # calls its observer from inside the disposal of its subscription
        hots = [s["id"] for s in sc["sources"] if s["kind"] == "hot" and not s.get("rogue")]
        if hots and rng.random() < 0.12:
            sc["feed_on_terminal"] = rng.choice(hots)  # the subscriber's own terminal handler pushes one more element into a hot source of the pipeline
        sites = catalog.sites_of(sc["program"])
        faults = []
        if sites and rng.random() < 0.5:
            for _ in range(rng.choice([1, 1, 2])):
                faults.append({"site": rng.choice(sites), "k": rng.randrange(0, 4)})
        sc["faults"] = faults
        if rng.random() < 0.3:
            sc["exc"] = rng.choice(["stop_iteration", "key_error", "value_error", "type_error", "attribute_error", "index_error", "runtime_error"])
        if rng.random() < (0.5 if depth == 0 else 0.2) and not expanding:  # a raising subscriber keeps take() from ending an expansion
            sc["sub_raise"] = rng.randrange(0, 4)
        r = rng.random()
        if r < 0.15:
            sc["dispose"] = {"note": rng.randrange(0, 4)}
        elif r < 0.3:
            sc["dispose"] = {"t": rng.choice(range(200, 700, 10)), "tie": rng.choice(["early", "late"])}
        return sc

    def execute(self, sc):
        out = Outcome()
        run = pipe.Run(sc)
        w, rec = run.w, run.rec
        run.grammar(out)
        ops = catalog.ops_of(sc["program"])
        out.digest = (tuple(ops), rec.kinds(), tuple(f[1:] for f in w.fired))
        out.sim_time = sc["horizon"]
        weird = bool(w.fired) or any(s.get("rogue") for s in sc["sources"]) or any(_nonconforming(s) for s in sc["sources"])
        out.nontrivial = bool(rec.events) and weird
        out.faults["callback_raise"] += len([f for f in w.fired if not f[1].startswith(("subscriber:", "source:"))])
        out.faults["subscriber_raise"] += len([f for f in w.fired if f[1].startswith("subscriber:") and "feeds_back" not in f[1]])
        out.faults["rogue_source"] += sum(1 for s in sc["sources"] if s.get("rogue"))
        out.faults["emit_on_dispose"] += len([f for f in w.fired if f[1].endswith(":emits_on_dispose")])
        out.faults["feed_from_terminal_handler"] += len([f for f in w.fired if f[1].endswith(":feeds_back_from_terminal_handler")])
        out.faults["nonconforming_source"] += sum(1 for s in sc["sources"] if _nonconforming(s))
        if rec.disp_ret_seq is not None:
            out.faults["dispose"] += 1
        if len(list(rec.all_recorders())) > 1:
            out.probes["inner_recorders"] += 1
        if run.cut_short:
            out.probes["run_cut_short_by_work_budget"] += 1
        if sc.get("as_observer"):
            out.probes["subscribed_as_observer_object"] += 1
        if run.build_error is not None:
            out.probes["build_error"] += 1
        out.info = {"ops": ops, "root": rec.kinds()}
        return out

    signature = staticmethod(pipe.signature)

    def shrink_candidates(self, sc):
        return ()


def _nonconforming(s):
    ks = [e[1] for e in s["events"]]
    for i, k in enumerate(ks):
        if k in "CE" and i != len(ks) - 1:
            return True
    return False


PROP = Prop()
