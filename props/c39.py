"""C39 Fluent operator methods equal their piped operators."""
import inspect
import time

import reactivex.operators as ops_mod
from reactivex import Observable
from reactivex.observable import mixins

from props.c44 import Captured, Hole
from simlib import catalog, pipe, vt
from simlib import core
from simlib.core import Hang, Outcome


def fluent_methods():
    names = set()
    for _, cls in inspect.getmembers(mixins, inspect.isclass):
        for n, f in vars(cls).items():
            if not n.startswith("_") and callable(f):
                names.add(n)
    return sorted(names)


FLUENT = fluent_methods()
OPS = [n for n in dir(ops_mod) if not n.startswith("_") and inspect.isfunction(getattr(ops_mod, n))]


class Recording:
    """While active, every reactivex.operators.<name>(...) call is logged by result identity."""

    def __init__(self):
        self.calls = {}
        self.saved = {}

    def __enter__(self):
        for n in OPS:
            real = getattr(ops_mod, n)
            self.saved[n] = real

            def wrapper(*a, _n=n, _real=real, **kw):
                r = _real(*a, **kw)
                self.calls[id(r)] = (_n, a, kw, r)
                return r

            setattr(ops_mod, n, wrapper)
        return self

    def __exit__(self, *exc):
        for n, real in self.saved.items():
            setattr(ops_mod, n, real)


def build_fluent(w, node, used):
    if isinstance(node, str):
        return w.sources[node]
    r = catalog.ROWS[node["op"]]
    ins = [build_fluent(w, x, used) for x in node["in"]]
    if node["op"].startswith("rx."):
        return r.build(w, node["id"], node["a"], ins)
    with Recording() as rec:
        cap = r.build(w, node["id"], node["a"], [Hole()] + ins[1:])
    if not isinstance(cap, Captured):
        return r.build(w, node["id"], node["a"], ins)
    o = ins[0]
    for op in cap.operators:
        call = rec.calls.get(id(op))
        if call is None or not hasattr(o, call[0]):
            used.append(("missing", call[0] if call else "?"))
            o = o.pipe(op)
            continue
        name, a, kw, _ = call
        if name == "do_action" and vt.h(node["id"]) % 2:
            name = "do"  # documented alias of do_action on the fluent side
        meth = getattr(o, name)
        try:
            inspect.signature(meth).bind(*a, **kw)
        except TypeError:
            # the fluent method does not declare an argument the operator function accepts:
            # "the same arguments" cannot be formed, nothing to compare for this call
            used.append(("narrower", name))
            o = o.pipe(op)
            continue
        used.append(("fluent", name))
        o = meth(*a, **kw)
    return o if cap.index is None else o[cap.index]


class Prop:
    id = "C39"
    level = "exploration"
    engine = "VT"
    quick_runs = 50000
    thorough_runs = 1000000
    run_wall = 6.0
    rule = ("seeded pipelines (depth 1-3) are built twice on twin worlds with identical timelines: once through the catalogue's piped form "
            "source.pipe(ops.name(args)) and once by calling the same-named fluent method source.name(args) with the very same argument "
            "objects (the piped build is recorded call by call and replayed as method calls); recorded notifications (inner observables "
            "recursively, values and virtual times) and all source subscription logs must be equal; a fluent form that does not finish where the piped form did (CPU-time watchdog) differs too. %d public mixin methods found by "
            "introspection; methods never exercised are listed in the evidence as uncovered. Distinct = (operators, root kinds); "
            "non-trivial = at least one fluent method used and one notification seen.") % len(FLUENT)
    assumptions = ["mostly seeded program/input generation; the simulated dimension is the shared virtual timeline",
                   "fluent do(on_next, on_error, on_completed) is documented as do_action and to_list as to_iterable; they are compared with those"]
    stubs = []

    def generate(self, rng, tier):
        sc = pipe.gen(rng, rng.choice([1, 1, 2, 3]), lambda r: "stateful" not in r.tags, max_sources=3)
        if rng.random() < 0.3:
            sc["dispose"] = {"t": rng.choice(range(200, 700, 10)), "tie": "early"}
        return sc

    def execute(self, sc):
        out = Outcome()
        used = []
        ops = catalog.ops_of(sc["program"])
        t0 = time.process_time()
        a = pipe.Run(sc)
        ta = time.process_time() - t0
        b = None
        for budget in (self.run_wall, 10 * self.run_wall):  # the fluent twin gets watchdog periods (CPU time) of its own; an expiry must repeat
            core.arm_watchdog(budget)
            used[:] = []
            try:
                b = pipe.Run(sc, build=lambda w, node: build_fluent(w, node, used))
                break
            except Hang:
                continue
        if b is None:
            if ta > self.run_wall / 10:
                raise Hang()  # the piped form was slow as well: a generator problem, not a difference
            out.digest = (tuple(ops), "hang")
            out.bad("fluent-differs", "program=%s methods=%s: the fluent form did not finish within %.0fs of CPU time, the piped form took %.2fs" % (
                ops, [n for _, n in used], self.run_wall, ta))
            return out
        out.digest = (tuple(ops), a.rec.kinds())
        out.sim_time = 2 * sc["horizon"]
        out.evals = 2
        for kind, name in used:
            out.probes[{"fluent": "method:", "missing": "no_fluent_method:", "narrower": "fluent_signature_narrower:"}[kind] + name] += 1
        out.nontrivial = bool(a.rec.events) and any(k == "fluent" for k, _ in used)
        if (a.build_error is None) != (b.build_error is None):
            out.bad("fluent-differs", "program=%s: piped build error %r, fluent build error %r" % (ops, a.build_error, b.build_error))
            return out
        x, y = a.rec.timed(), b.rec.timed()
        if x != y:
            out.bad("fluent-differs", "program=%s methods=%s: piped form saw %s, fluent form saw %s" % (ops, [n for _, n in used], x[:8], y[:8]))
            return out
        for sid in a.w.sources:
            p = [(s.sub_t, s.disp_t) for s in a.w.sources[sid].subs]
            q = [(s.sub_t, s.disp_t) for s in b.w.sources[sid].subs]
            if p != q:
                out.bad("fluent-differs", "program=%s: source %s subscriptions %s (piped) vs %s (fluent)" % (ops, sid, p, q))
                return out
        out.info = {"ops": ops, "methods": [n for _, n in used], "root": a.rec.kinds()}
        return out

    signature = staticmethod(pipe.signature)

    def post_evidence(self, cov):
        used = set(k.split(":", 1)[1] for k in cov["probes"] if k.startswith("method:"))
        cov["fluent_methods_found"] = len(FLUENT)
        cov["fluent_methods_exercised"] = len(used & set(FLUENT))
        cov["fluent_methods_uncovered"] = [m for m in FLUENT if m not in used]


PROP = Prop()
