"""C33 Cancelling an asyncio-scheduled action is effective from any thread (AIO + TH engines)."""
from simlib import aio, th
from simlib.core import Outcome


class Work:
    def __init__(self, sc):
        self.sc = sc
        self.acts = {}
        self.loop_thread = None

    def body(self, sim, shim):
        from reactivex.disposable import Disposable
        from reactivex.scheduler.eventloop import AsyncIOScheduler, AsyncIOThreadSafeScheduler

        sc = self.sc
        loop = self.loop = aio.make_loop(sim, shim)
        safe = sc["scheduler"] == "threadsafe"
        s = (AsyncIOThreadSafeScheduler if safe else AsyncIOScheduler)(loop)
        acts = self.acts
        disps = {}

        def schedule(a):
            rec = acts[a["id"]] = {"id": a["id"], "due": sim.now + max(0, a["ms"] or 0) * 1000, "start": None, "start_t": None, "thread": None,
                                   "disp_ret": None, "disp_ret_t": None, "runs": 0}

            def action(sch, st=None):
                rec["runs"] += 1
                rec["start"] = sim.tick()
                rec["start_t"] = sim.now
                rec["thread"] = sim.current.name
                sim.yield_point("action.body")
                return Disposable()

            if a["ms"] is None:
                disps[a["id"]] = s.schedule(action)
            else:
                disps[a["id"]] = s.schedule_relative(a["ms"] / 1000.0, action)

        def dispose(aid):
            d = disps.get(aid)
            if d is not None:
                d.dispose()
                if acts[aid]["disp_ret"] is None:
                    acts[aid]["disp_ret"] = sim.tick()
                    acts[aid]["disp_ret_t"] = sim.now

        def loop_main():
            self.loop_thread = sim.current.name
            loop.call_later(sc.get("run_for_ms", 200) / 1000.0, loop.stop)
            loop.run_forever()
            loop.close()

        mode = sc["mode"]
        sim.mark()
        if mode == "loop_thread":
            # everything from callbacks on the loop thread
            for op in sc["ops"]:
                if op[0] == "sched":
                    loop.call_later(op[2] / 1000.0, (lambda a=op[1]: schedule(a)))
                else:
                    loop.call_later(op[2] / 1000.0, (lambda i=op[1]: dispose(i)))
            sim.spawn(loop_main, "loop", "work")
        elif mode == "not_running":
            for op in sc["ops"]:
                if op[0] == "sched":
                    schedule(op[1])
                else:
                    dispose(op[1])
            sim.spawn(loop_main, "loop", "work")
        elif mode == "mixed":
            # every call in a context of its own: before the loop starts ("pre"), from a loop callback ("loop"), or on a foreign
            # thread while the loop runs ("foreign") - an action scheduled in one context is disposed from another
            for op in sc["ops"]:
                if op[3] == "pre":
                    schedule(op[1]) if op[0] == "sched" else dispose(op[1])
                elif op[3] == "loop":
                    loop.call_later((op[2] + 1) / 1000.0, (lambda a=op[1]: schedule(a)) if op[0] == "sched" else (lambda i=op[1]: dispose(i)))
            sim.spawn(loop_main, "loop", "work")

            def foreign_mixed():
                t = 0
                for op in sorted([o for o in sc["ops"] if o[3] == "foreign"], key=lambda o: o[2]):
                    sim.sleep((op[2] + 1 - t) / 1000.0)
                    t = op[2] + 1
                    schedule(op[1]) if op[0] == "sched" else dispose(op[1])

            sim.spawn(foreign_mixed, "foreign", "work")
        else:  # foreign thread while the loop is running
            sim.spawn(loop_main, "loop", "work")

            def foreign():
                if sc.get("foreign_sets_loop"):
                    import asyncio
                    asyncio.set_event_loop(loop)  # installed as this thread's current loop, but run by the other thread
                sim.sleep(0.001)
                for op in sc["ops"]:
                    if op[2]:
                        sim.sleep(op[2] / 1000.0)
                    if op[0] == "sched":
                        schedule(op[1])
                    else:
                        dispose(op[1])

            sim.spawn(foreign, "foreign", "work")


class Prop:
    id = "C33"
    level = "exploration"
    engine = "AIO+TH (deterministic asyncio loop on the simulated clock, run as one controlled thread of the TH engine)"
    quick_runs = 20000
    thorough_runs = 300000
    chunk = 100
    time_unit = "simulated seconds"
    rule = ("1-3 immediate / relative schedules on AsyncIOScheduler (scheduled and disposed from loop callbacks) and on "
            "AsyncIOThreadSafeScheduler (scheduled and disposed by a foreign controlled thread while the loop runs, or before the loop "
            "starts, or each call in a context of its own - before the loop starts / in a loop callback / on a foreign thread - so that an "
            "action scheduled in one is disposed from another), dispose calls at seeded simulated instants, 0-3 forced pre-emptions (site-first sampling; the window between the "
            "loop's cancelled-check and the callback is a yield point), spurious wake-ups of the loop's wait. Checked: actions run on the "
            "loop thread, not before their due time, at most once, and an action never starts after dispose() on its disposable returned. "
            "Distinct = (mode, ops, context-switch sequence); non-trivial = at least one dispose raced a pending action (dispose issued "
            "before the action's due time or within 2 ms of it).")
    assumptions = ["asyncio's call_soon/call_later/call_soon_threadsafe are CPython's and execute atomically between yield points; only the loop's wait and clock are simulated",
                   "concurrent.futures.Future used by the thread-safe scheduler is the simulated one (its result() parks the calling simulated thread)"]
    stubs = ["selector wait of the event loop (simulated condition)", "loop clock", "concurrent.futures.Future", "threading primitives"]
    real = ["reactivex/scheduler/eventloop/asyncioscheduler.py", "reactivex/scheduler/eventloop/asynciothreadsafescheduler.py", "asyncio.BaseEventLoop bookkeeping (call_soon, call_later, handles, run_forever, stop)"]

    def generate(self, rng, tier):
        mode = rng.choice(["loop_thread", "not_running", "foreign", "foreign", "foreign", "mixed", "mixed"])
        n = rng.randrange(1, 4)
        if mode == "mixed":
            ops = []
            for i in range(n):
                ctx = rng.choice(["pre", "loop", "foreign"])
                t = rng.choice([0, 0, 1, 3])
                ops.append(["sched", {"id": i, "ms": rng.choice([None, None, 1, 2, 5, 10, 0, 0, -1])}, t, ctx])
                if rng.random() < 0.85:
                    dctx = rng.choice(["loop", "foreign", "foreign"] + (["pre"] if ctx == "pre" else []))
                    ops.append(["dispose", i, t + rng.choice([0, 0, 0, 1, 2, 4, 5, 9, 10, 11]), dctx])
            return {"mode": mode, "scheduler": "threadsafe", "ops": ops, "sched": th.gen_sched(rng, ks=(0, 1, 2, 3, 3), spurious_p=0.3, sweep_p=0.02, stall_p=0.3)}
        ops = []
        for i in range(n):
            ms = rng.choice([None, None, 1, 2, 5, 10, 0, 0, -1])
            ops.append(["sched", {"id": i, "ms": ms}, rng.choice([0, 0, 1, 3])])
            if rng.random() < 0.8:
                ops.append(["dispose", i, rng.choice([0, 0, 0, 1, 2, 4, 5, 9, 10, 11])])
        if mode == "loop_thread":
            t = 0
            for op in ops:
                t += op[2]
                op[2] = t + 1
        return {"mode": mode, "foreign_sets_loop": rng.random() < 0.5, "scheduler": "plain" if mode == "loop_thread" and rng.random() < 0.6 else "threadsafe", "ops": ops,
                "sched": th.gen_sched(rng, ks=(0, 1, 2, 3, 3), spurious_p=0.3, sweep_p=0.02, stall_p=0.3)}

    def execute(self, sc):
        if sc["sched"].get("sweep") and "cps" not in sc:
            return th.sweep(self.execute, sc)
        out = Outcome()
        holder = {}

        def factory():
            w = Work(sc)
            holder["w"] = w
            return w.body

        sim, cps = th.explore(sc, factory, out, focus=("asynciothreadsafescheduler.py", "asyncioscheduler.py"))
        w = holder["w"]
        acts = list(w.acts.values())
        dig = th.interleaving_digest(sim)
        out.digest = (sc["mode"], sc["scheduler"], repr(sc["ops"]), dig)
        out.nontrivial = any(a["disp_ret"] is not None and a["disp_ret_t"] <= a["due"] + 2000 for a in acts)
        out.probes["mode:%s:%s" % (sc["mode"], sc["scheduler"])] += 1
        desc = "%s cps=%s" % ({k: v for k, v in sc.items() if k not in ("seed", "index")}, cps)

        def bad(rule, msg):
            if not out.viol:
                out.bad(rule, "%s: %s" % (desc, msg))

        if sim.failure:
            bad(sim.failure[0], sim.failure[1])
        if sim.thread_errors:
            bad("thread-exception", repr(sim.thread_errors[0]))
        if w.loop.callback_errors and not sim.failure:
            bad("thread-exception", "escaped a loop callback: %r" % (w.loop.callback_errors[0],))
        for a in acts:
            if a["runs"] > 1:
                bad("ran-twice", "action %s ran %d times" % (a["id"], a["runs"]))
            if a["start"] is None:
                continue
            if a["thread"] != w.loop_thread:
                bad("wrong-thread", "action %s ran on %s, the loop runs on %s" % (a["id"], a["thread"], w.loop_thread))
            if a["start_t"] < a["due"] - 1:
                bad("early", "action %s started at %d us, due at %d us" % (a["id"], a["start_t"], a["due"]))
            if a["disp_ret"] is not None and a["start"] > a["disp_ret"]:
                bad("ran-after-dispose", "action %s started after dispose() on its disposable had returned" % a["id"])
        if not sim.failure:
            lost = [a["id"] for a in acts if a["start"] is None and a["disp_ret"] is None]
            if lost:
                bad("lost-action", "actions %s never ran although never disposed" % lost)
        if out.viol:
            wsc = dict(sc)
            wsc["cps"] = cps
            out.witness = wsc
        out.info = {"scenario": {k: v for k, v in sc.items() if k not in ("seed", "index", "sched")}, "cps": cps}
        return out

    def signature(self, sc, rule, msg):
        return {"rule": rule, "mode": sc.get("mode")}


PROP = Prop()
