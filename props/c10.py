"""C10 Sequential composition runs one source at a time, in order."""
import itertools

import reactivex as rx
from reactivex import operators as ops

from simlib import catalog, evmodel, multi, vt
from simlib.core import Outcome

FORMS = ["concat_op", "rx.concat", "concat_with_iterable", "add", "start_with", "for_in", "repeat", "repeat_take", "retry", "retry_take",
         "catch_op", "rx.catch", "catch_with_iterable", "catch_handler", "oern_op", "rx.oern", "oern_factory", "while_do", "do_while"]


class Prop:
    id = "C10"
    level = "exploration"
    engine = "VT"
    quick_runs = 80000
    thorough_runs = 2000000
    run_wall = 6.0
    hang_rule = "did-not-terminate"  # e.g. an unbounded retry of a synchronously failing source never leaves the instant
    rule = ("seeded lists of 1-4 cold/hot/sync sources with generated timelines and terminal kinds through concat (operator, factory, "
            "iterable, +), start_with, for_in, repeat(n) / repeat()+take, retry(n) / retry()+take, catch (operator, factory, iterable, "
            "handler), on_error_resume_next (operator, factory, source factory), while_do and do_while; output (values, virtual times, "
            "terminal) and every source's subscription intervals are compared with an event-driven reference that subscribes sources "
            "strictly one after another. Scenarios with a same-instant tie between two sources are only checked for the grammar. "
            "4 % of the repeat / retry / while_do / do_while scenarios run a source that terminates inside subscribe() 150-450 times "
            "(every run has to start from the scheduler, not from inside the previous run's terminal callback). "
            "Distinct = (form, args, output); non-trivial = at least two notifications and two source subscriptions.")
    assumptions = ["tie policy: two different sources notifying at one instant are not ordered by the property", "callbacks total and deterministic (while_do conditions count their invocations)"]
    stubs = []

    def generate(self, rng, tier):
        form = rng.choice(FORMS)
        ctx = catalog.Ctx(rng, hot_p=0.3, falsy_p=0.25, sync_p=0.15)
        n = 1 if form in ("start_with", "repeat", "repeat_take", "retry", "retry_take", "while_do", "do_while") else rng.choice([1, 2, 2, 3, 4])
        if form in ("concat_op", "catch_op", "oern_op", "add"):
            n = max(n, 2)
        positive = form in ("repeat_take", "retry_take")
        kinds = ["cold"] if positive else None
        srcs = []
        for _ in range(n):
            term = rng.choice("CCE") if form not in ("repeat_take",) else "C"
            if form == "retry_take":
                term = "E"
            srcs.append(ctx.new_source(kind=(rng.choice(kinds) if kinds else None), terminal=term if rng.random() < 0.85 or positive else None, positive_first=positive))
        if positive and not any(e[1] == "N" for e in ctx.sources[0]["events"]):
            ctx.sources[0]["events"].insert(0, [10, "N", 1])
        a = {}
        if form in ("repeat", "retry"):
            a["n"] = rng.randrange(0, 4)
        if form in ("repeat_take", "retry_take"):
            a["take"] = rng.randrange(1, 6)
        if form == "start_with":
            a["v"] = [vt.gen_value(rng, 0.4) for _ in range(rng.randrange(0, 3))]
        if form == "for_in":
            a["v"] = [rng.randrange(0, 5) for _ in range(rng.randrange(0, 4))]
        if form in ("while_do", "do_while"):
            a["m"] = rng.randrange(0, 4)
        if form in ("repeat", "retry", "while_do", "do_while") and rng.random() < 0.04:
            # stack safety: hundreds of runs of a source that terminates inside its own subscribe() - each run has to start from the
            # scheduler (trampoline), not from inside the previous run's terminal callback
            spec = next(s for s in ctx.sources if s["id"] == srcs[0])
            spec["kind"] = "sync"
            spec["events"] = ([[0, "N", 1]] if rng.random() < 0.5 else []) + [[0, "E", {"err": "x"}] if form == "retry" else [0, "C"]]
            a["n" if form in ("repeat", "retry") else "m"] = rng.choice([150, 300, 450])
        sc = {"clock": rng.choice(["test", "test", "historical"]), "sources": ctx.sources, "form": form, "srcs": srcs, "a": a, "sub_t": 205, "horizon": 3500}
        off = rng.choice([None, None, None, 37, 123, 411])
        if off and form not in ("while_do", "do_while", "catch_handler"):  # (those use callbacks with state shared across subscriptions)
            sc["sub2_t"] = 205 + off
        multi.gen_feedback(rng, sc, rng.choice(srcs), p=0.12)  # a consumer that pushes a follow-up element into one (hot) source
        return sc

    def build(self, w, sc):
        f, a = sc["form"], sc["a"]
        S = [w.sources[s] for s in sc["srcs"]]
        if f == "concat_op":
            return S[0].pipe(ops.concat(*S[1:]))
        if f == "rx.concat":
            return rx.concat(*S)
        if f == "concat_with_iterable":
            return rx.concat_with_iterable(list(S))
        if f == "add":
            return functools_reduce_add(S)
        if f == "start_with":
            return S[0].pipe(ops.start_with(*[vt.dec(x) for x in a["v"]]))
        if f == "for_in":
            return rx.for_in(a["v"], lambda i: S[i % len(S)])
        if f == "repeat":
            return S[0].pipe(ops.repeat(a["n"]))
        if f == "repeat_take":
            return S[0].pipe(ops.repeat(), ops.take(a["take"]))
        if f == "retry":
            return S[0].pipe(ops.retry(a["n"]))
        if f == "retry_take":
            return S[0].pipe(ops.retry(), ops.take(a["take"]))
        if f == "catch_op":
            return S[0].pipe(ops.catch(S[1]))
        if f == "rx.catch":
            return rx.catch(*S)
        if f == "catch_with_iterable":
            return rx.catch_with_iterable(list(S))
        if f == "catch_handler":
            it = iter(S[1:])
            return S[0].pipe(ops.catch(lambda e, src: next(it, rx.throw(e))))
        if f == "oern_op":
            return S[0].pipe(ops.on_error_resume_next(S[1]))
        if f == "rx.oern":
            return rx.on_error_resume_next(*S)
        if f == "oern_factory":
            return rx.on_error_resume_next(S[0], *[(lambda e, s=s: s) for s in S[1:]])
        cond = w.fn("cond", "n1.cond", a["m"])
        if f == "while_do":
            return S[0].pipe(ops.while_do(cond))
        if f == "do_while":
            return S[0].pipe(ops.do_while(cond))
        raise ValueError(f)

    def model(self, eng, sc):
        f, a = sc["form"], sc["a"]
        ids = sc["srcs"]
        if f in ("concat_op", "rx.concat", "concat_with_iterable", "add"):
            return evmodel.seq_model(eng, ids, "concat")
        if f == "start_with":
            for x in a["v"]:
                eng.emit("N", vt.dec(x))
            return evmodel.seq_model(eng, ids, "concat")
        if f == "for_in":
            return evmodel.seq_model(eng, [ids[i % len(ids)] for i in a["v"]], "concat")
        if f == "repeat":
            return evmodel.seq_model(eng, [ids[0]] * a["n"], "concat")
        if f in ("repeat_take", "retry_take"):
            real_emit = eng.emit
            st = {"n": 0}

            def emit(k, v=None):
                real_emit(k, v)
                if k == "N":
                    st["n"] += 1
                    if st["n"] == a["take"]:
                        real_emit("C")

            eng.emit = emit
            return evmodel.seq_model(eng, itertools.repeat(ids[0]), "concat" if f == "repeat_take" else "catch")
        if f == "retry":
            return evmodel.seq_model(eng, [ids[0]] * a["n"], "catch")
        if f == "catch_op":
            return evmodel.seq_model(eng, ids[:2], "catch")
        if f == "oern_op":
            return evmodel.seq_model(eng, ids[:2], "resume")
        if f in ("rx.catch", "catch_with_iterable"):
            return evmodel.seq_model(eng, ids, "catch")
        if f == "catch_handler":
            # a handler form: the handler's choice replaces the failed source once; later failures go to the next handler result
            return evmodel.seq_model(eng, ids[:2], "catch")
        if f in ("rx.oern", "oern_factory"):
            return evmodel.seq_model(eng, ids, "resume")
        if f == "while_do":
            return evmodel.seq_model(eng, [ids[0]] * a["m"], "concat")
        if f == "do_while":
            return evmodel.seq_model(eng, [ids[0]] * (a["m"] + 1), "concat")
        raise ValueError(f)

    def execute(self, sc):
        out = Outcome()
        desc = "form=%s args=%s sources=%s" % (sc["form"], sc["a"], [(s["id"], s["kind"], s["events"]) for s in sc["sources"]])
        r = multi.compare(sc, self.build, self.model, out, desc)
        out.probes["form:" + sc["form"]] += 1
        if r is None:
            return out
        w, rec, eng = r
        nsubs = sum(len(s.subs) for s in w.sources.values())
        out.digest = (sc["form"], repr(sc["a"]), tuple(out and [repr(e) for e in eng.out][:10]))
        out.nontrivial = out.nontrivial and nsubs >= 2
        # strictly one after another, by sequence numbers
        allsubs = sorted((x for s in w.sources.values() for x in s.subs), key=lambda x: x.sub_seq)
        for a_, b_ in (zip(allsubs, allsubs[1:]) if sc.get("sub2_t") is None else ()):
            if a_.disp_seq is None or (a_.disp_seq > b_.sub_seq and a_.disp_t > b_.sub_t):
                out.bad("overlapping-subscriptions", "%s: a source was subscribed at t=%s while the previous one (subscribed t=%s) was still subscribed" % (desc, b_.sub_t, a_.sub_t))
                break
        out.info = {"form": sc["form"], "args": sc["a"], "output": [list(map(str, e)) for e in eng.out[:6]]}
        return out

    def signature(self, sc, rule, msg):
        return {"rule": rule, "form": sc.get("form")}


def functools_reduce_add(S):
    o = S[0]
    for s in S[1:]:
        o = o + s
    return o


PROP = Prop()
