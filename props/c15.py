"""C15 Time-shifting operators move notifications by the requested time."""
from datetime import timedelta

from reactivex import operators as ops

from simlib import catalog, timemodels as tm, vt
from simlib.core import Outcome

FORMS = ["delay", "delay", "delay_timedelta", "delay_absolute", "delay_subscription", "delay_subscription_absolute", "delay_with_mapper", "delay_with_mapper_sub", "timestamp", "time_interval",
         "timestamp_own_clock", "time_interval_own_clock"]
PARKED = 5000.0  # the operator's own scheduler (a second virtual clock that nobody advances) stands at this time


def sc_sources_tail(ctx, n):
    return ctx.sources[-n:]


def pick_fn(sc):
    pool = sc["pool"]
    return lambda v: pool[vt.h(v) % len(pool)]


class Prop:
    id = "C15"
    level = "exploration"
    engine = "VT"
    quick_runs = 80000
    thorough_runs = 2500000
    rule = ("one generated cold/hot/sync timeline through delay (0 / float / timedelta / absolute datetime), delay_subscription "
            "(relative / absolute), delay_with_mapper (with and without subscription delay; delay sources from a cold pool), timestamp "
            "and time_interval (also with a scheduler of their own whose clock differs from the subscription's), on TestScheduler (numeric clock) and HistoricalScheduler (datetime clock); output (values, virtual "
            "times, terminal) compared with event-driven references (every element and the completion exactly d later in order, errors "
            "at once, release at the delay source's first event, clock readings). Same-instant ties between a source event and an operator "
            "timer are accepted under any resolution. Distinct = (form, args, output); non-trivial = at least two notifications.")
    assumptions = ["tie policy", "absolute due times lie after the first subscription instant; at a later second subscription of the same observable what is left of them (possibly nothing) is the delay"]
    stubs = []

    def generate(self, rng, tier):
        form = rng.choice(FORMS)
        ctx = catalog.Ctx(rng, hot_p=0.45, falsy_p=0.25, sync_p=0.1)
        src = ctx.new_source(maxn=6)
        sc = {"clock": rng.choice(["test", "historical", "historical"]), "form": form, "src": src, "d": rng.choice([0, 10, 20, 30, 50, 60, 100]), "sub_t": 205, "horizon": 2500}
        if "with_mapper" in form:
            sc["pool"] = [ctx.new_source("cold", prefix="p", maxn=2, positive_first=rng.random() < 0.7) for _ in range(2)]
            for s in sc_sources_tail(ctx, 2):
                r = rng.random()
                if r < 0.15:
                    s["kind"] = "sync"  # a delay observable that fires (or ends) inside its own subscribe()
                elif r < 0.3:
                    s["kind"] = "syncthen"  # ... or fires there and again later (a BehaviorSubject as delay)
            if form.endswith("_sub"):
                sc["sub_delay"] = ctx.new_source("cold", prefix="p", maxn=1, positive_first=True)
        sc["sources"] = ctx.sources
        off = rng.choice([None, None, None, 37, 123, 411])
        if off:
            sc["sub2_t"] = 205 + off
        from simlib import multi
        multi.gen_feedback(rng, sc, src, p=0.15)  # a consumer that answers an element by pushing a follow-up element into the (hot) source
        return sc

    def build(self, w, sc):
        f, d = sc["form"], sc["d"]
        s = w.sources[sc["src"]]
        if f == "delay":
            return s.pipe(ops.delay(float(d) if d % 20 else d))
        if f == "delay_timedelta":
            return s.pipe(ops.delay(timedelta(seconds=d)))
        if f == "delay_absolute":
            return s.pipe(ops.delay(vt.UTC0 + timedelta(seconds=sc["sub_t"] + d)))
        if f == "delay_subscription":
            return s.pipe(ops.delay_subscription(float(d)))
        if f == "delay_subscription_absolute":
            return s.pipe(ops.delay_subscription(vt.UTC0 + timedelta(seconds=sc["sub_t"] + d)))
        if f == "delay_with_mapper":
            pick = pick_fn(sc)
            return s.pipe(ops.delay_with_mapper(lambda v: w.sources[pick(v)]))
        if f == "delay_with_mapper_sub":
            pick = pick_fn(sc)
            return s.pipe(ops.delay_with_mapper(w.sources[sc["sub_delay"]], lambda v: w.sources[pick(v)]))
        if f == "timestamp":
            return s.pipe(ops.timestamp())
        if f.endswith("_own_clock"):
            # the operator is given a scheduler of its own whose clock differs from the one the subscription runs on
            from reactivex.scheduler import HistoricalScheduler
            own = HistoricalScheduler(vt.UTC0 + timedelta(seconds=PARKED))
            return s.pipe(ops.timestamp(scheduler=own) if f.startswith("timestamp") else ops.time_interval(scheduler=own))
        return s.pipe(ops.time_interval())

    def model(self, eng, sc):
        f, d, sid = sc["form"], float(sc["d"]), sc["src"]
        if "absolute" in f:
            left = sc["sub_t"] + d - eng.now  # an absolute due time: what is left of it at this subscription
            if left < 0 and f == "delay_absolute":
                # already past: the statement does not say whether an element beats an error arriving at the same instant
                evs = [s for s in sc["sources"] if s["id"] == sid][0]["events"]
                if any(e[1] == "E" and any(x[1] == "N" and x[0] == e[0] for x in evs) for e in evs):
                    raise tm.Tie()
            d = max(0.0, left)
        if f.startswith("delay_subscription"):
            return tm.m_delay_subscription(eng, sid, d)
        if f.startswith("delay_with_mapper"):
            return tm.m_delay_with_mapper(eng, sid, pick_fn(sc), sc.get("sub_delay"))
        if f.startswith("delay"):
            return tm.m_delay(eng, sid, d)
        if f == "timestamp":
            return tm.m_timestamp(eng, sid)
        if f == "timestamp_own_clock":
            return tm.single(eng, sid, lambda v: eng.emit("N", ("ts", v, PARKED)))  # the reading of the operator's own clock
        if f == "time_interval_own_clock":
            return tm.single(eng, sid, lambda v: eng.emit("N", ("ti", v, 0.0)))  # that clock never moves
        return tm.m_time_interval(eng, sid)

    @staticmethod
    def norm_got(evs):
        out = []
        for t, k, v in evs:
            n = type(v).__name__
            if k == "N" and n == "Timestamp":
                out.append((t, k, ("ts", v.value, (v.timestamp - vt.UTC0).total_seconds())))
            elif k == "N" and n == "TimeInterval":
                out.append((t, k, ("ti", v.value, v.interval.total_seconds())))
            else:
                out.append((t, k, v))
        return out

    def execute(self, sc):
        out = Outcome()
        desc = "form=%s d=%s clock=%s sources=%s" % (sc["form"], sc["d"], sc["clock"], [(s["id"], s["kind"], s["events"]) for s in sc["sources"]])
        out.probes["form:" + sc["form"]] += 1
        out.probes["clock:" + sc["clock"]] += 1
        w, rec, wants = tm.compare(sc, self.build, self.model, out, desc, self.norm_got)
        out.digest = (sc["form"], sc["d"], sc["clock"], rec.kinds(), tuple(e[1] for e in rec.events))
        out.info = {"form": sc["form"], "d": sc["d"], "got": rec.kinds()}
        return out

    def signature(self, sc, rule, msg):
        return {"rule": rule, "form": sc.get("form")}


PROP = Prop()
