"""C13 Multi-source combinators follow their pairing rules."""
import reactivex as rx
from reactivex import operators as ops

from simlib import catalog, evmodel, models, multi, vt
from simlib.core import Outcome

FORMS = ["rx.zip", "zip_op", "rx.combine_latest", "combine_latest_op", "rx.with_latest_from", "with_latest_from_op", "rx.fork_join", "fork_join_op", "rx.amb", "amb_op"]


class Prop:
    id = "C13"
    level = "exploration"
    engine = "VT"
    quick_runs = 100000
    thorough_runs = 2500000
    rule = ("tuples of 1-4 cold/hot/sync timelines (interleaved, simultaneous, empty, erroring) through zip, combine_latest, "
            "with_latest_from, fork_join and amb, each in operator and factory form; output (values, virtual times, terminal) and every "
            "source's subscription intervals are compared with event-driven references written from the pairing rules of the statement. "
            "combine_latest's completion instant is enveloped (not before no further tuple is possible, not after all sources completed); "
            "zero-length subscriptions of amb losers are ignored. Scenarios with a same-instant tie between two sources are only checked "
            "for the grammar. Distinct = (form, output); non-trivial = at least two notifications.")
    assumptions = ["tie policy for same-instant events of different sources", "amb among simultaneous firsts: either is accepted (such scenarios are ties)"]
    stubs = []

    def generate(self, rng, tier):
        form = rng.choice(FORMS)
        ctx = catalog.Ctx(rng, hot_p=0.45, falsy_p=0.25, sync_p=0.1)
        n = rng.choice([1, 2, 2, 2, 3, 4])
        if form.endswith("_op"):
            n = max(n, 2)
        srcs = [ctx.new_source(maxn=4) for _ in range(n)]
        sc = {"clock": rng.choice(["test", "test", "historical"]), "form": form, "srcs": srcs, "sources": ctx.sources, "sub_t": 205, "horizon": 3000}
        off = rng.choice([None, None, None, 37, 123, 411])
        if off and "combine_latest" not in form:
            sc["sub2_t"] = 205 + off
        multi.gen_feedback(rng, sc, rng.choice(srcs), p=0.15)  # a consumer that pushes a follow-up element into one (hot) source
        return sc

    def build(self, w, sc):
        f = sc["form"]
        S = [w.sources[s] for s in sc["srcs"]]
        name = f.replace("rx.", "").replace("_op", "")
        if f.startswith("rx."):
            return getattr(rx, name)(*S)
        return S[0].pipe(getattr(ops, name)(*S[1:])) if name != "amb" else _amb_chain(S)

    def model(self, eng, sc):
        f = sc["form"].replace("rx.", "").replace("_op", "")
        ids = sc["srcs"]
        if f == "zip":
            return evmodel.zip_model(eng, ids)
        if f == "combine_latest":
            eng.info = evmodel.combine_latest_model(eng, ids)
            return
        if f == "with_latest_from":
            primary, others = evmodel.with_latest_from_model(eng, ids)
            # the operator subscribes the other sources first, then the primary
            for sid, h in zip(ids[1:], others):
                if not eng.done:
                    eng.subscribe(sid, h)
            if not eng.done:
                eng.subscribe(ids[0], primary)
            return
        if f == "fork_join":
            return evmodel.fork_join_model(eng, ids)
        return evmodel.amb_model(eng, ids)

    def execute(self, sc):
        out = Outcome()
        desc = "form=%s sources=%s" % (sc["form"], [(s["id"], s["kind"], s["events"]) for s in sc["sources"]])
        out.probes["form:" + sc["form"]] += 1
        name = sc["form"].replace("rx.", "").replace("_op", "")
        if name != "combine_latest":
            r = multi.compare(sc, self.build, self.model, out, desc, drop_empty=(name in ("amb", "with_latest_from", "zip", "fork_join")))
            if r is not None:
                out.digest = (sc["form"], tuple(repr(e) for e in r[2].out[:10]))
                out.info = {"form": sc["form"], "output": [list(map(str, e)) for e in r[2].out[:6]]}
            return out
        # combine_latest: completion instant enveloped
        w, rec = multi.run_real(sc, self.build)
        got = models.norm(rec.events_kv())
        out.sim_time = sc["horizon"]
        g = vt.grammar_violation(rec)
        if g:
            out.bad("grammar", "%s: %s" % (desc, g))
        try:
            eng = multi.run_model(sc, self.model)
        except models.Tie:
            out.probes["tie_skipped"] += 1
            out.digest = ("tie", desc)
            return out
        want = models.norm(eng.out)
        out.digest = (sc["form"], tuple(repr(e) for e in eng.out[:10]))
        out.nontrivial = len(got) >= 2
        ns = lambda evs: [e for e in evs if e[1] == "N"]  # noqa: E731
        if ns(want) != ns(got):
            out.bad("model-mismatch", "%s: expected elements %s, got %s" % (desc, ns(want)[:12], ns(got)[:12]))
            return out
        gt = [e for e in got if e[1] in "CE"]
        wt = [e for e in want if e[1] in "CE"]
        early = eng.info.get("early")
        if gt and gt[0][1] == "C":
            t = gt[0][0]
            hi = wt[0][0] if wt else None  # the reference terminates when all completed (C) or at the first error (E)
            lo = early if early is not None else (hi if (wt and wt[0][1] == "C") else None)
            if lo is None or t < lo or (hi is not None and t > hi):
                out.bad("completion-envelope", "%s: completed at t=%s; allowed window [%s, %s] (no further tuple possible .. all sources completed)" % (desc, t, lo, hi))
        elif gt:  # an error
            if not wt or wt[0] != gt[0]:
                out.bad("model-mismatch", "%s: terminated with %s, expected %s" % (desc, gt[0], wt[:1]))
        elif wt:
            out.bad("model-mismatch", "%s: never terminated, expected %s" % (desc, wt[0]))
        out.info = {"form": sc["form"], "output": [list(map(str, e)) for e in eng.out[:6]]}
        return out

    def signature(self, sc, rule, msg):
        return {"rule": rule, "form": sc.get("form")}


def _amb_chain(S):
    o = S[0]
    for s in S[1:]:
        o = o.pipe(ops.amb(s))
    return o


PROP = Prop()
