"""C40 Resources and finally-actions are released exactly once."""
import reactivex as rx
from reactivex import operators as ops
from reactivex.operators import _do

from simlib import catalog, chain, models, vt
from simlib.core import Outcome

KINDS = ["using", "using", "using", "finally_action", "do_finally", "do_action", "do", "tap", "do_after_next", "do_on_subscribe", "do_on_dispose",
         "do_on_terminate", "do_after_terminate"]


class Res:
    """Counting disposable resource."""

    def __init__(self, w, log):
        self.w, self.log = w, log
        self.count = 0

    def dispose(self):
        self.count += 1
        self.log.append((self.w.tick(), self.w.now(), "res.dispose"))


class FalsyRes(Res):
    """A resource that is a container and empty right now (as an empty CompositeDisposable is): falsy, yet a resource."""

    def __len__(self):
        return 0


class Prop:
    id = "C40"
    level = "fault_enumeration"
    engine = "VT"
    quick_runs = 25000
    thorough_runs = 500000
    chunk = 60
    rule = ("per seeded scenario (one cold/hot/sync inner timeline; using with counting resources - plain, falsy (an empty container), an empty CompositeDisposable filled by the observable factory, or None - finally_action, do_finally, do_action, "
            "do, tap and the do_* variants; 1-2 subscriptions) an undisturbed run, one run in which the subscriber's own terminal callback raises (finally_action), then one run per dispose point (every distinct instant "
            "x {early, late tie}, inside the k-th notification) and per exception position (resource factory, observable factory, k-th call "
            "of each side-effect callback). Checked: every created resource disposed exactly once per subscription, no later than the "
            "terminal / dispose instant, also when the observable factory fails; finally actions exactly once per subscription and after "
            "the terminal notification; do_* output equals the input unless a callback raised (then on_error at that point) and callbacks "
            "saw exactly the notifications. Distinct = (kind, fault, dispose point, output); non-trivial = a resource / action was "
            "exercised together with a dispose point or a fault.")
    assumptions = ["single thread / virtual time"]
    stubs = []

    def generate(self, rng, tier):
        kind = rng.choice(KINDS)
        ctx = catalog.Ctx(rng, hot_p=0.4, falsy_p=0.3, sync_p=0.15)
        ctx.new_source(maxn=5)
        if ctx.sources[0]["kind"] in ("sync", "cold") and rng.random() < 0.3:
            # first event inside subscribe() and NOT shielded by the emitter: what the subscriber raises there unwinds through subscribe()
            ctx.sources[0]["kind"] = "syncthen"
        sc = {"clock": rng.choice(["test", "test", "historical"]), "kind": kind, "sources": ctx.sources, "subs": rng.choice([1, 1, 2]), "sub_t": 205, "horizon": 1200}
        if kind == "using":
            sc["res"] = rng.choice(["plain", "plain", "falsy", "bag", "none"])
        sc["exc"] = rng.choice([None, None, None, "stop_iteration", "key_error", "type_error", "attribute_error"])  # what a raising callback / factory raises
        return sc

    # ------------------------------------------------------------ one run
    def one(self, sc, out):
        kind = sc["kind"]
        w = vt.World(sc["clock"])
        vt.make_sources(w, sc["sources"])
        src = w.sources[sc["sources"][0]["id"]]
        log = []  # (seq, t, what)
        fault = sc.get("fault") or {}
        resources = []
        cbs = {"n": 0, "e": 0, "c": 0, "fin": 0, "sub": 0, "disp": 0, "term": 0, "after_next": 0}

        def cb(name, site):
            def f(*a):
                k = cbs[name]
                cbs[name] += 1
                log.append((w.tick(), w.now(), site))
                if fault.get("site") == site and fault.get("k") == k:
                    w.fired.append((w.seq, site, k))
                    raise vt.FAULT_CLASSES[sc.get("exc")](site)
            return f

        if kind == "using":
            def rf():
                log.append((w.tick(), w.now(), "resource_factory"))
                if fault.get("site") == "resource_factory":
                    w.fired.append((w.seq, "resource_factory", 0))
                    raise vt.FAULT_CLASSES[sc.get("exc")]("resource_factory")
                shape = sc.get("res", "plain")
                if shape == "none":
                    return None  # "no resource": nothing to release, the sequence passes through
                r = (FalsyRes if shape == "falsy" else Res)(w, log)
                resources.append(r)
                if shape == "bag":
                    from reactivex.disposable import CompositeDisposable
                    bag = CompositeDisposable()  # created empty, filled by the observable factory
                    bag.pending = r
                    return bag
                return r

            def of(r):
                if getattr(r, "pending", None) is not None:
                    r.add(r.pending)
                log.append((w.tick(), w.now(), "observable_factory"))
                if fault.get("site") == "observable_factory":
                    w.fired.append((w.seq, "observable_factory", 0))
                    raise vt.FAULT_CLASSES[sc.get("exc")]("observable_factory")
                return src

            obs = rx.using(rf, of)
        elif kind == "finally_action":
            obs = src.pipe(ops.finally_action(cb("fin", "finally")))
        elif kind == "do_finally":
            obs = _do.do_finally(cb("fin", "finally"))(src)
        elif kind == "do_action":
            obs = src.pipe(ops.do_action(cb("n", "on_next"), cb("e", "on_error"), cb("c", "on_completed")))
        elif kind == "do":
            from reactivex.observer import Observer
            obs = src.pipe(ops.do(Observer(cb("n", "on_next"), cb("e", "on_error"), cb("c", "on_completed"))))
        elif kind == "tap":
            obs = src.pipe(ops.tap(cb("n", "on_next"), cb("e", "on_error"), cb("c", "on_completed")))
        elif kind == "do_after_next":
            obs = _do.do_after_next(src, cb("after_next", "after_next"))
        elif kind == "do_on_subscribe":
            obs = _do.do_on_subscribe(src, cb("sub", "on_subscribe"))
        elif kind == "do_on_dispose":
            obs = _do.do_on_dispose(src, cb("disp", "on_dispose"))
        elif kind == "do_on_terminate":
            obs = _do.do_on_terminate(src, cb("term", "on_terminate"))
        else:
            obs = _do.do_after_terminate(src, cb("term", "after_terminate"))
        d = sc.get("dispose") or {}
        recs = []
        for i in range(sc["subs"]):
            r = vt.Recorder(w, "r%d" % i, follow=False, dispose_at=d.get("note") if i == 0 else None)
            if sc.get("sub_raises") and i == 0:
                r.raise_on_terminal = "always"  # the subscriber's own terminal callback raises (also while subscribe() is still running)
            recs.append(r)
            w.at(sc["sub_t"] + 40 * i, (lambda r=r: _sub(r, obs)))
        if "t" in d:
            w.at(d["t"], recs[0].dispose, tie=d.get("tie", "early"))
        w.run(sc["horizon"])
        return w, recs, log, resources, cbs

    def check(self, sc, out):
        kind = sc["kind"]
        w, recs, log, resources, cbs = self.one(sc, out)
        fault = sc.get("fault")
        d = sc.get("dispose")
        spec = sc["sources"][0]
        desc = "kind=%s%s fault=%s dispose=%s%s subs=%d source=%s" % (kind, ("(resource=%s)" % sc["res"]) if "res" in sc else "", fault, d,
                                                                   " subscriber's terminal callback raises" if sc.get("sub_raises") else "", sc["subs"], (spec["kind"], spec["events"]))
        out.digest = (kind, repr(fault), repr(d), tuple(r.kinds() for r in recs))
        out.sim_time = sc["horizon"]
        fired = bool(w.fired)
        out.nontrivial = bool(d) or fired
        if fired:
            out.faults["callback_raise"] += 1
        if d:
            out.faults["dispose"] += 1

        def bad(rule, msg):
            if not out.viol:
                out.bad(rule, "%s: %s" % (desc, msg))

        for r in recs:
            g = vt.grammar_violation(r)
            if g:
                bad("grammar", g)
        esc = [e for e in w.escaped if isinstance(e[3], vt.InjectedFault)]
        if esc and kind != "do_on_dispose" and not (kind in ("finally_action", "do_finally")) and not sc.get("sub_raises"):
            bad("escaped", "InjectedFault escaped into %s" % esc[0][2])

        def end_of(r):
            """(seq, t) at which subscription r ended: its terminal or the return of its dispose"""
            t = r.terminal()
            cands = []
            if t is not None:
                cands.append((t[0], t[1]))
            if r.disp_ret_seq is not None:
                cands.append((r.disp_ret_seq, r.disp_t))
            return min(cands) if cands else None

        if kind == "using":
            made = len(resources)
            n_sub = sum(1 for r in recs if r.sub_seq is not None)
            exp_made = 0 if ((fault and fault["site"] == "resource_factory") or sc.get("res") == "none") else n_sub
            if made != exp_made:
                bad("resource-count", "%d resources created for %d subscriptions" % (made, n_sub))
            for i, res in enumerate(resources):
                r = recs[i] if i < len(recs) else None
                e = end_of(r) if r else None
                if e is not None:
                    if res.count != 1:
                        bad("resource-dispose-count", "resource of subscription %d disposed %d times although the subscription ended" % (i, res.count))
                    else:
                        rt = [x for x in log if x[2] == "res.dispose"]
                        t_disp = [x[1] for x in log if x[2] == "res.dispose"][min(i, len(rt) - 1)]
                        if t_disp > e[1]:
                            bad("resource-late", "resource of subscription %d disposed at t=%s, after the subscription ended at t=%s" % (i, t_disp, e[1]))
                elif res.count != 0:
                    bad("resource-early", "resource of subscription %d disposed although the subscription is still live" % i)
            if fault and fired:
                t0 = recs[0].terminal()
                if t0 is None or t0[2] != "E" or not isinstance(t0[3], vt.InjectedFault):
                    bad("factory-fault-not-delivered", "subscriber saw %r" % recs[0].kinds())
        elif kind in ("finally_action", "do_finally"):
            ended = [r for r in recs if end_of(r) is not None]
            if cbs["fin"] != len(ended):
                bad("finally-count", "finally action ran %d times for %d ended subscriptions (of %d)" % (cbs["fin"], len(ended), len(recs)))
            fins = [x for x in log if x[2] == "finally"]
            for r, f in zip(ended, fins):
                t = r.terminal()
                if t is not None and (r.disp_ret_seq is None or t[0] < r.disp_ret_seq) and f[0] < t[0]:
                    bad("finally-before-terminal", "finally action ran before the terminal notification was delivered")
        else:
            # transparency of the side-effect operators
            evs = chain.visible(spec, sc["sub_t"])
            for i, r in enumerate(recs[:1]):
                want = models.norm(evs)
                if fault and fired:
                    continue
                got = models.norm(r.events_kv())
                if r.disp_ret_seq is not None:
                    want = want[:len(got)]
                if got != want:
                    bad("do-changes-sequence", "subscriber saw %s, the source emitted %s" % (got[:10], want[:10]))
            if fault and fired and kind in ("do_action", "do", "tap", "do_on_terminate", "do_on_subscribe"):
                t0 = recs[0].terminal()
                site = fault["site"]
                if recs[0].disp_ret_seq is None and (t0 is None or t0[2] != "E" or not isinstance(t0[3], vt.InjectedFault)) and site != "on_error":
                    bad("callback-fault-not-delivered", "callback %s raised but the subscriber saw %r" % (site, recs[0].kinds()))
            if sc["subs"] == 1 and not fired and not d and kind in ("do_action", "do", "tap"):
                n = sum(1 for e in evs if e[1] == "N")
                if cbs["n"] != n or cbs["c"] != sum(1 for e in evs if e[1] == "C") or cbs["e"] != sum(1 for e in evs if e[1] == "E"):
                    bad("do-callback-count", "callbacks saw %s for source events %s" % ({k: cbs[k] for k in "nec"}, [e[1] for e in evs]))
            if kind == "do_on_subscribe" and not fired and cbs["sub"] != sum(1 for r in recs if r.sub_seq is not None):
                bad("do-callback-count", "on_subscribe ran %d times for %d subscriptions" % (cbs["sub"], len(recs)))
            if kind == "do_on_dispose" and not fired:
                ended = [r for r in recs if end_of(r) is not None]
                if cbs["disp"] != len(ended):
                    bad("do-callback-count", "on_dispose ran %d times for %d ended subscriptions" % (cbs["disp"], len(ended)))
            if kind in ("do_on_terminate", "do_after_terminate") and not fired and not d:
                term = sum(1 for r in recs if r.terminal() is not None)
                if cbs["term"] != term:
                    bad("do-callback-count", "%s ran %d times for %d terminated subscriptions" % (kind, cbs["term"], term))
        return w, recs, cbs

    def execute(self, sc):
        if "dispose" in sc or "fault" in sc or sc.get("single") or sc.get("sub_raises"):
            out = Outcome()
            self.check(sc, out)
            return out
        out = Outcome()
        base = Outcome()
        w, recs, cbs = self.check(dict(sc, single=True), base)
        out.digests = [(base.digest, False)]
        out.evals = 1
        out.sim_time = sc["horizon"]
        if base.viol:
            out.viol, out.witness = base.viol, dict(sc, single=True)
        # dispose points
        ts = sorted(set([sc["sub_t"]] + [e[1] for r in recs for e in r.events]))[:8]
        plans = [{"dispose": {"t": (int(t) if float(t).is_integer() else t), "tie": tie}} for t in ts for tie in ("early", "late")]
        plans += [{"dispose": {"note": k}} for k in range(min(3, len(recs[0].events)))]
        # exception positions
        kind = sc["kind"]
        if kind == "finally_action":
            # finally_action promises its action also when an exception unwinds through subscribe() (it guards source.subscribe);
            # using / do_finally make no such promise: a subscriber that raises while the pipeline is still being assembled is a
            # double fault no statement covers
            plans += [{"sub_raises": True, "subs": 1}]
        if kind == "using":
            plans += [{"fault": {"site": "resource_factory", "k": 0}}, {"fault": {"site": "observable_factory", "k": 0}}]
        else:
            site_of = {"n": "on_next", "e": "on_error", "c": "on_completed", "fin": "finally", "sub": "on_subscribe", "disp": "on_dispose",
                       "term": "on_terminate" if kind == "do_on_terminate" else "after_terminate", "after_next": "after_next"}
            for key, cnt in cbs.items():
                if key in ("fin", "disp"):
                    continue  # finally / dispose actions are not 'user callbacks processing a notification'
                for k in range(min(cnt, 3)):
                    plans.append({"fault": {"site": site_of[key], "k": k}, "subs": 1})
        for p in plans:
            one = dict(sc)
            one.update(p)
            o = Outcome()
            self.check(one, o)
            out.evals += 1
            out.sim_time += sc["horizon"]
            out.faults.update(o.faults)
            out.digests.append((o.digest, o.nontrivial))
            if o.viol and not out.viol:
                out.viol, out.witness = o.viol, one
        out.probes["kind:" + kind] += 1
        out.info = {"kind": kind, "plans": len(plans)}
        return out

    def signature(self, sc, rule, msg):
        return {"rule": rule, "kind": sc.get("kind")}


def _sub(r, obs):
    try:
        r.subscribe(obs)
    except Exception as e:  # noqa: BLE001
        r.w.escaped.append((r.w.tick(), r.w.now(), "subscribe()", e))


PROP = Prop()
