"""C08 Falsy values are ordinary elements."""
import json

from simlib import catalog, chain, models, pipe, vt
from simlib.core import Outcome

TOKENS = ["T0", "T1", "T2", "T3", "T4", "T5", "T6", "T7"]
SIGMA = {"T0": None, "T1": 0, "T2": {"f": 0.0}, "T3": False, "T4": "", "T5": {"t": []}, "T6": {"l": []}, "T7": {"d": 1}}
AGNOSTIC_KINDS = {"map", "map_i", "acc", "star", "ident", "action"}
# rows that never inspect element values (given value-agnostic callbacks or none)
AGNOSTIC = [
    "take", "skip", "take_last", "skip_last", "take_last_buffer", "element_at", "element_at_or_default", "pairwise", "start_with",
    "default_if_empty", "ignore_elements", "materialize", "dematerialize", "as_observable", "map", "map_none", "map_indexed", "scan", "reduce",
    "to_list", "to_iterable", "first", "first_or_default", "last", "last_or_default", "single", "single_or_default", "single_or_default_async",
    "some", "count", "is_empty", "slice", "delay", "delay_subscription", "time_interval", "debounce", "throttle_first",
    "throttle_with_timeout", "sample_time", "take_with_time", "skip_with_time", "take_last_with_time", "skip_last_with_time",
    "take_until_with_time", "skip_until_with_time", "window_with_count", "buffer_with_count", "window_with_time", "buffer_with_time",
    "window_with_time_or_count", "buffer_with_time_or_count", "repeat", "retry", "share", "publish_ref_count", "replay_ref_count",
    "publish_value_ref_count", "observe_on", "subscribe_on", "merge", "rx.merge", "concat", "rx.concat", "zip", "rx.zip", "combine_latest",
    "rx.combine_latest", "with_latest_from", "rx.with_latest_from", "fork_join", "rx.fork_join", "amb", "rx.amb", "catch", "rx.catch",
    "on_error_resume_next", "rx.on_error_resume_next", "take_until", "skip_until", "sample", "window", "buffer", "zip_with_iterable",
    "zip_with_list", "starmap", "pluck", "do_action", "tap", "finally_action",
]


VALUE_D = {"element_at_or_default", "default_if_empty", "first_or_default", "last_or_default", "single_or_default", "single_or_default_async"}
VALUE_V = {"start_with", "zip_with_iterable", "zip_with_list", "publish_value_ref_count"}


def agnostic_row(r):
    return r.name in AGNOSTIC


def rename(x, table):
    """Replace token strings inside a JSON scenario / a runtime value."""
    if isinstance(x, str):
        return table.get(x, x)
    if isinstance(x, list):
        return [rename(y, table) for y in x]
    if isinstance(x, tuple):
        return tuple(rename(y, table) for y in x)
    if isinstance(x, dict):
        return {k: rename(v, table) for k, v in x.items()}
    return x


def rename_out(evs, table):
    """Apply sigma inside recorded (t, kind, vkey-like) structures: done on raw values before vkey."""
    return evs


class Prop:
    id = "C08"
    level = "exploration"
    engine = "VT"
    quick_runs = 80000
    thorough_runs = 1500000
    rule = ("(a) metamorphic: seeded pipelines (depth 1-3) of value-agnostic operators (%d catalogue rows, callbacks that only build "
            "structure) run on inputs made of unique tokens and again with every token renamed to a falsy value (None, 0, 0.0, False, '', (), "
            "[], {}), in sources and in arguments; the renamed run must equal the renaming of the first run, values and virtual times, windows "
            "recursively. (b) value-sensitive element-wise and aggregate operators against the C05/C06 list models with 90%% falsy inputs. "
            "Distinct = (operators, output); non-trivial = at least one element observed.") % len(AGNOSTIC)
    assumptions = ["0 == 0.0 == False is Python's own rule and applies wherever an operator is specified to compare (distinct, contains, ...); those go through the models, not the renaming relation",
                   "subjects' treatment of falsy values is checked by the C21-C23 history models, whose value domain includes the falsy values"]
    stubs = []
    MODELS = dict(models.ELEMENTWISE)
    MODELS.update(models.AGGREGATES)

    def generate(self, rng, tier):
        if rng.random() < 0.35:
            names = sorted(self.MODELS)
            sc = chain.gen(rng, names, tier, falsy_p=0.9, depth_choices=(1, 1, 2))
            sc["mode"] = "model"
            return sc
        sc = pipe.gen(rng, rng.choice([1, 1, 2, 2, 3]), agnostic_row, max_sources=3, sub_t=205)
        # unique tokens in sources, token values in arguments
        i = 0
        for s in sc["sources"]:
            for e in s["events"]:
                if e[1] == "N":
                    e[2] = TOKENS[i % len(TOKENS)] if rng.random() < 0.8 else rng.choice(["x", 1, 2])
                    i += 1
        for n in _nodes(sc["program"]):
            a = n["a"]
            for k, v in list(a.items()):
                if isinstance(v, dict) and "k" in v and v["k"] not in AGNOSTIC_KINDS:
                    a[k] = None
                if isinstance(v, dict) and v.get("k") == "acc":
                    v["r"] = 0  # the accumulator variant with odd r looks at the truthiness of the element: not value-agnostic, model mode only
                if ((k == "d" and n["op"] in VALUE_D) or (k == "v" and n["op"] in VALUE_V)) and not isinstance(v, list):
                    a[k] = rng.choice(TOKENS)
                if k == "v" and n["op"] in VALUE_V and isinstance(v, list):
                    a[k] = [rng.choice(TOKENS) for _ in v]
                if k == "seed" and v:
                    a[k] = {"v": rng.choice(TOKENS)}
        sc["mode"] = "rename"
        return sc

    def execute(self, sc):
        if sc.get("mode") == "model":
            return chain.execute(sc, self.MODELS)
        out = Outcome()
        ops = catalog.ops_of(sc["program"])
        a = pipe.Run(sc)
        sc2 = rename(json.loads(json.dumps(sc)), SIGMA)
        b = pipe.Run(sc2)
        table = {k: vt.dec(v) for k, v in SIGMA.items()}
        x = _timed(a.rec, table)
        y = _timed(b.rec, None)
        out.digest = (tuple(ops), tuple(y))
        out.sim_time = 2 * sc["horizon"]
        out.evals = 2
        out.nontrivial = any(e[1] == "N" for e in y)
        for o in set(ops):
            out.probes["op:" + o] += 1
        if x != y:
            out.bad("falsy-renaming", "program=%s: with ordinary tokens (renamed afterwards) %s, with falsy values %s" % (ops, x[:8], y[:8]))
        out.info = {"ops": ops, "falsy_run": [list(map(str, e)) for e in y[:6]]}
        return out

    signature = staticmethod(pipe.signature)


def _timed(rec, table):
    out = []
    ci = 0
    for seq, t, k, v in rec.events:
        if k == "N" and isinstance(v, vt.Observable) and ci < len(rec.children):
            out.append((t, "N", ("inner", tuple(_timed(rec.children[ci], table)))))
            ci += 1
        elif k == "N":
            out.append((t, "N", vt.vkey(_ren(v, table) if table else v)))
        elif k == "E":
            out.append((t, "E", models.ekey(v)))
        else:
            out.append((t, "C", None))
    return out


def _ren(x, table):
    if isinstance(x, str):
        return table.get(x, x)
    if isinstance(x, tuple):
        return tuple(_ren(y, table) for y in x)
    if isinstance(x, list):
        return [_ren(y, table) for y in x]
    if hasattr(x, "kind") and hasattr(x, "value") and x.kind == "N":
        return models.MNote("N", _ren(x.value, table))
    if type(x).__name__ == "TimeInterval":
        return type(x)(_ren(x.value, table), x.interval)
    if type(x).__name__ == "Timestamp":
        return type(x)(_ren(x.value, table), x.timestamp)
    return x


def _nodes(node):
    if isinstance(node, dict):
        yield node
        for x in node["in"]:
            yield from _nodes(x)


PROP = Prop()
