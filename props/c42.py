"""C42 CatchScheduler routes action exceptions to its handler."""
import types

from simlib import vt
from simlib.core import Outcome

from reactivex.disposable import Disposable
from reactivex.scheduler import CatchScheduler, VirtualTimeScheduler


class Boom(Exception):
    def __init__(self, aid):
        super().__init__("boom-%s" % (aid,))
        self.aid = aid


class BoomStop(Boom, StopIteration):
    pass


class BoomKey(Boom, KeyError):
    pass


class BoomRuntime(Boom, RuntimeError):
    pass


BOOMS = {None: Boom, "stop_iteration": BoomStop, "key_error": BoomKey, "runtime_error": BoomRuntime}


class Prop:
    id = "C42"
    level = "fault_enumeration"
    engine = "VT"
    quick_runs = 16000
    thorough_runs = 400000
    chunk = 50
    rule = ("per seeded tree of recursive scheduling (immediate/relative/absolute/periodic, through the scheduler handed to each action, "
            "depth <= 3; actions may return the handle of nested work, the handle of a root may be disposed at some instant) on CatchScheduler(VirtualTimeScheduler): one fault-free run and one run per (raise position, handler verdict) — "
            "every action and every periodic tick in turn. The handler must be called exactly once per raise with that exception; verdict "
            "True swallows it (periodic work stops), otherwise it propagates out of the inner scheduler's advance_to(); all other invocations "
            "(ids, clock, periodic state) must equal the run of the same tree on the bare inner scheduler. Distinct = (tree shape, raise "
            "position, verdict); non-trivial = a raise happened in a nested or periodic action.")
    assumptions = ["the harness resumes the inner scheduler (stop(); advance_to()) up to virtual time 1000 after an exception propagated out of start()"]
    stubs = []

    def gen_action(self, rng, ids, depth):
        aid = len(ids)
        ids.append(aid)
        kind = rng.choice(["imm", "rel", "rel", "abs", "periodic"] if depth < 2 else ["imm", "rel", "abs"])
        a = {"id": aid, "kind": kind, "t": rng.choice([0, 5, 10, 10, 30, 50]), "children": [],
             "ret_child": rng.random() < 0.4}  # the action returns the handle of the last piece of work it scheduled
        if kind == "periodic":
            a["t"] = rng.choice([5, 10, 30])
            a["ticks"] = rng.randrange(1, 5)
        elif depth < 3:
            for _ in range(rng.choice([0, 0, 1, 1, 2])):
                a["children"].append(self.gen_action(rng, ids, depth + 1))
        return a

    def generate(self, rng, tier):
        ids = []
        roots = [self.gen_action(rng, ids, 0) for _ in range(rng.randrange(1, 4))]
        sc = {"roots": roots}
        if rng.random() < 0.4:
            # the handle returned for one root is disposed at some instant: whatever that root's action returned (nested work) is cancelled
            sc["cancel"] = [rng.choice(roots)["id"], rng.choice([0, 3, 7, 12, 20, 35, 60])]
        sc["exc"] = rng.choice([None, None, "stop_iteration", "key_error", "runtime_error"])  # what a raising action raises is also a StopIteration / ...
        return sc

    def positions(self, roots):
        pos = []

        def walk(a):
            if a["kind"] == "periodic":
                for k in range(a["ticks"]):
                    pos.append([a["id"], k])
            else:
                pos.append([a["id"], 0])
            for c in a["children"]:
                walk(c)

        for r in roots:
            walk(r)
        return pos

    def run(self, sc, catch, fault, verdict):
        """fault = [action id, tick] or None.  In the bare run the faulting action returns normally
        instead of raising and emulates what the statement promises for the verdict."""
        inner = vt.CountingVTS(0.0)
        inner.world = types.SimpleNamespace(now=lambda: float(inner.clock))
        handled = []

        def handler(ex):
            handled.append(getattr(ex, "aid", repr(ex)))
            return verdict

        s = CatchScheduler(inner, handler) if catch else inner
        log = []
        pdisp = {}

        def sched(a, sch):
            aid = a["id"]
            if a["kind"] == "periodic":
                state = {"failed": False}

                def tick(st):
                    k = st
                    if not catch and state["failed"]:
                        return st  # bare emulation of "after a propagated failure the action is not called any more"
                    log.append((aid, k, float(inner.clock)))
                    if fault and fault[0] == aid and fault[1] == k:
                        if catch:
                            raise BOOMS[sc.get("exc")]((aid, k))
                        state["failed"] = True
                        pdisp[aid].dispose()  # handled: CatchScheduler stops it; propagated: a periodic action that raised is not rescheduled (C35)
                        return st
                    if k + 1 >= a["ticks"]:
                        pdisp[aid].dispose()
                    return k + 1

                pdisp[aid] = sch.schedule_periodic(float(a["t"]), tick, 0)
                return pdisp[aid]

            def action(scheduler, state=None):
                log.append((aid, 0, float(inner.clock)))
                hs = [sched(c, scheduler) for c in a["children"]]
                if fault and fault[0] == aid and catch:
                    raise BOOMS[sc.get("exc")]((aid, 0))
                if fault and fault[0] == aid:
                    return Disposable()  # (bare emulation of the raising action: an action that raises returns nothing)
                return hs[-1] if (a.get("ret_child") and hs) else Disposable()

            if a["kind"] == "imm":
                return sch.schedule(action)
            if a["kind"] == "rel":
                return sch.schedule_relative(float(a["t"]), action)
            return sch.schedule_absolute(float(a["t"]), action)

        handles = {}
        for r in sc["roots"]:
            handles[r["id"]] = sched(r, s)
        if sc.get("cancel"):
            rid, t = sc["cancel"]

            def cancel(_s, _st=None):
                handles[rid].dispose()
                return Disposable()

            inner.schedule_absolute(float(t), cancel)
        escaped = []
        for _ in range(50):
            try:
                inner.advance_to(1000.0)
                break
            except Boom as e:
                escaped.append(e.aid)
                inner.stop()
        return log, handled, escaped, len(inner.lib_actions)

    def execute(self, sc):
        if "fault" in sc:
            out = Outcome()
            self.one(sc, sc["fault"], sc["verdict"], out)
            return out
        out = Outcome()
        out.digests = []
        out.evals = 0
        cases = [(None, True)] + [(p, v) for p in self.positions(sc["roots"]) for v in (True, False)]
        for fault, verdict in cases:
            o = Outcome()
            self.one(sc, fault, verdict, o)
            out.evals += 2
            out.digests.append((o.digest, o.nontrivial))
            out.faults.update(o.faults)
            out.sim_time += o.sim_time
            if o.viol and not out.viol:
                out.viol = o.viol
                w = dict(sc)
                w["fault"], w["verdict"] = fault, verdict
                out.witness = w
        out.info = {"actions": len(self.positions(sc["roots"])), "cases": len(cases)}
        return out

    def one(self, sc, fault, verdict, out):
        got = self.run(sc, True, fault, verdict)
        want = self.run(sc, False, fault, verdict)
        out.digest = (repr(_shape(sc["roots"])), repr(fault), verdict)
        out.sim_time = got[0][-1][2] if got[0] else 0.0
        fired = fault is not None and any(e[0] == fault[0] and e[1] == fault[1] for e in got[0])
        if fired:
            out.faults["action_raise_handled" if verdict else "action_raise_propagated"] += 1
            out.nontrivial = True
        desc = "fault=%s verdict=%s" % (fault, verdict)
        if got[0] != want[0]:
            out.bad("invocations-differ", "%s: on CatchScheduler %s, on the bare scheduler %s" % (desc, got[0][:12], want[0][:12]))
            return
        exp_handled = [tuple(fault)] if fired else []
        if [tuple(x) if isinstance(x, (list, tuple)) else x for x in got[1]] != exp_handled:
            out.bad("handler-calls", "%s: handler saw %s, expected %s" % (desc, got[1], exp_handled))
            return
        exp_escaped = exp_handled if not verdict else []
        if [tuple(x) for x in got[2]] != exp_escaped:
            out.bad("propagation", "%s: exceptions out of start(): %s, expected %s" % (desc, got[2], exp_escaped))
            return
        if got[3] != want[3]:
            out.bad("inner-work-differs", "%s: the inner scheduler ran %d actions under CatchScheduler, %d for the same tree on the bare scheduler (periodic work not stopped?)" % (desc, got[3], want[3]))


def _shape(roots):
    return [(a["kind"], a["t"], a.get("ticks"), _shape(a["children"])) for a in roots]


PROP = Prop()
