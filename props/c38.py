"""C38 Marble diagrams mean what the documented syntax says."""
import reactivex as rx
from reactivex.observable.marbles import parse

from datetime import timedelta

from simlib import models, vt
from simlib.core import Outcome

SPECIAL = "-,()#|"


def ref_parse(string, timespan, shift, lookup, raise_stopped):
    """Independent character scanner written from the documented syntax.
    Returns [(time, kind, value)] or the string 'ValueError'."""
    s = string.replace(" ", "")
    out = []
    stopped = False
    i = 0

    def value_of(tok):
        try:
            v = int(tok)
        except ValueError:
            try:
                v = float(tok)
            except ValueError:
                v = tok
        return lookup.get(v, v)

    def add(t, tok):
        nonlocal stopped
        if raise_stopped and stopped:
            raise ValueError()
        if tok == "|":
            out.append((t, "C", None))
            stopped = True
        elif tok == "#":
            out.append((t, "E", None))
            stopped = True
        else:
            out.append((t, "N", value_of(tok)))

    try:
        while i < len(s):
            c = s[i]
            t = i * timespan + shift
            if c == "-":
                i += 1
            elif c == "(":
                j = s.index(")", i)
                for tok in s[i + 1:j].split(","):
                    if tok != "":
                        add(t, tok)
                    elif raise_stopped and stopped:
                        raise ValueError()
                i = j + 1
            elif c == ",":
                raise ValueError()
            elif c in "|#":
                add(t, c)
                i += 1
            else:
                j = i
                while j < len(s) and s[j] not in SPECIAL:
                    j += 1
                add(t, s[i:j])
                i = j
    except ValueError:
        return "ValueError"
    return out


class Prop:
    id = "C38"
    level = "exploration"
    engine = "VT"
    quick_runs = 200000
    thorough_runs = 2000000
    rule = ("seeded marble strings (<= 24 tokens) over the documented alphabet (single- and multi-character values, numbers (also 17-19 digit integers, exponent floats), groups with "
            "commas, spaces, '-', '|', '#', sometimes elements after the terminal) with seeded timespans (1, 10, 0.5, 0.1), shifts and "
            "lookups; parse() is compared with an independent character scanner written from the documentation (times, kinds, values, "
            "ValueError), and from_marbles / cold / hot on a virtual-time scheduler must deliver exactly those notifications at those "
            "virtual times (hot: only those after subscription). Distinct = (string, timespan, shift, form); non-trivial = at least two "
            "notifications.")
    assumptions = ["the parse half is plain input generation against a reference parser; the delivery half is simulated on virtual time",
                   "well-formed groups only (every '(' has its ')' and groups are not nested)"]
    stubs = []

    def generate(self, rng, tier):
        toks = []
        n = rng.randrange(0, 10)
        vals = ["1", "2", "12", "a", "b", "ab", "3.5", "x1", "0"]
        big = rng.random() < 0.15
        if big:  # integer literals beyond 2**53 (exact as int, rounded by a detour through float), a float in exponent form
            vals = vals + ["9007199254740993", "1695388800000000123", "1e3"]
        for _ in range(n):
            r = rng.random()
            if r < 0.4:
                toks.append("-" * rng.randrange(1, 4))
            elif r < 0.7:
                toks.append(rng.choice(vals))
                if rng.random() < 0.7:
                    toks.append("-")
            elif r < 0.85:
                g = [rng.choice(vals) for _ in range(rng.randrange(0, 4))]
                if rng.random() < 0.2:
                    g.append(rng.choice("|#"))
                toks.append("(" + ",".join(g) + ")")
            else:
                toks.append(" ")
        if rng.random() < 0.7:
            toks.append(rng.choice("||#"))
            if rng.random() < 0.12:
                toks.append(rng.choice(["-", "-1", "(2)", "|"]))
        sc = {"clock": rng.choice(["test", "historical"]), "string": "".join(toks), "timespan": rng.choice([1, 10, 10, 0.5, 0.1]),
                "shift": rng.choice([0, 0, 0, 5, 0.5]), "lookup": rng.random() < 0.4, "form": rng.choice(["parse", "from_marbles", "cold", "hot"]), "schedulers": rng.choice([None, None, "other_at_subscribe", "subscribe_only"]),
                "raise_stopped": rng.random() < 0.5, "sub_t": 203.25, "horizon": 1000,
                # delivery forms: optionally a second, overlapping subscriber of the same observable, and an early unsubscription of the first
                "sub2_off": rng.choice([None, None, 0.75, 3, 12.5, 40]), "unsub1_after": rng.choice([None, None, None, 2.25, 15, 33]),
                "shift_abs": rng.random() < 0.3}  # hot: the shift is given as an absolute datetime (the same instant)
        if big and sc["timespan"] == 10:
            sc["timespan"] = 1  # 19-character tokens make long strings: keep every notification inside the horizon
        return sc

    def execute(self, sc):
        out = Outcome()
        s, ts, shift = sc["string"], sc["timespan"], sc["shift"]
        lookup = {"a": 100, 1: "one", 3.5: None} if sc["lookup"] else {}
        desc = "%s string=%r timespan=%s shift=%s lookup=%s" % (sc["form"], s, ts, shift, bool(lookup))
        out.digest = (s, ts, shift, sc["form"], sc["lookup"])
        out.probes["form:" + sc["form"]] += 1
        err = vt.SourceError("m")
        if sc["form"] == "parse":
            want = ref_parse(s, ts, shift, lookup, sc["raise_stopped"])
            try:
                msgs = parse(s, timespan=ts, time_shift=shift, lookup=lookup, error=err, raise_stopped=sc["raise_stopped"])
                got = [(t, n.kind, (n.value if n.kind == "N" else None)) for t, n in msgs]
            except ValueError:
                got = "ValueError"
            out.nontrivial = got != "ValueError" and len(got) >= 2
            if got == "ValueError":
                out.probes["value_error"] += 1
            g2 = got if got == "ValueError" else [(t, k, vt.vkey(v)) for t, k, v in got]
            w2 = want if want == "ValueError" else [(t, k, vt.vkey(v)) for t, k, v in want]
            if g2 != w2:
                out.bad("parse-mismatch", "%s: parse gave %s, the documented syntax means %s" % (desc, g2, w2))
            return out
        # delivery
        want = ref_parse(s, ts, 0 if sc["form"] != "hot" else shift, lookup, True)
        w = vt.World(sc["clock"])
        rec = vt.Recorder(w, "r", follow=False)
        box = {}
        t_create = 100
        sub_t = sc["sub_t"] if sc["form"] == "hot" else 205

        def create():
            try:
                if sc["form"] == "hot":
                    due = (vt.UTC0 + timedelta(seconds=t_create + shift)) if sc.get("shift_abs") else shift
                    box["obs"] = rx.hot(s, ts, due, lookup=lookup, error=err, scheduler=w.s)
                else:
                    f = rx.from_marbles if sc["form"] == "from_marbles" else rx.cold
                    box["obs"] = f(s, ts, lookup=lookup, error=err, scheduler=None if sc.get("schedulers") == "subscribe_only" else w.s)
            except ValueError:
                box["obs"] = "ValueError"
                return
            if sc.get("schedulers") == "other_at_subscribe":
                # bound to w.s at creation, subscribed with another (parked) virtual scheduler: the creation-time scheduler wins
                from reactivex import Observable
                from reactivex.scheduler import HistoricalScheduler
                other, inner = HistoricalScheduler(vt.UTC0 + timedelta(seconds=5000)), box["obs"]
                box["obs"] = Observable(lambda o, s_=None: inner.subscribe(o, scheduler=other))

        w.at(t_create, create)
        subs = [(sub_t, sc.get("unsub1_after"))]
        if sc.get("sub2_off") is not None:
            subs.append((sub_t + sc["sub2_off"], None))
        recs = [vt.Recorder(w, "r%d" % i, follow=False) for i in range(len(subs))]
        for r_, (t_, un_) in zip(recs, subs):
            w.at(t_, (lambda r_=r_: r_.subscribe(box["obs"]) if box.get("obs") not in (None, "ValueError") else None))
            if un_ is not None:
                w.at(t_ + un_, (lambda r_=r_: r_.dispose() if r_.sub is not None else None))
        w.run(sc["horizon"])
        out.sim_time = sc["horizon"]
        if want == "ValueError":
            out.probes["value_error"] += 1
            if box.get("obs") != "ValueError":
                out.bad("parse-mismatch", "%s: elements after the terminal marble were accepted" % desc)
            return out
        if box.get("obs") == "ValueError":
            out.bad("parse-mismatch", "%s: ValueError for a well-formed diagram" % desc)
            return out
        for i, (rec, (t_sub, un_)) in enumerate(zip(recs, subs)):
            tag = desc if i == 0 else "%s [second subscriber, %s after the first%s]" % (desc, sc["sub2_off"], (", which unsubscribes after %s" % subs[0][1]) if subs[0][1] is not None else "")
            if sc["form"] == "hot":
                exp = [(t_create + t, k, v) for t, k, v in want if t_create + t > t_sub]
            else:
                exp = [(t_sub + t, k, v) for t, k, v in want]
            cut = next((j for j, e in enumerate(exp) if e[1] in "CE"), None)
            if cut is not None:
                exp = exp[:cut + 1]
            got = [(t, k, vt.vkey(v) if k == "N" else None) for _, t, k, v in rec.events]
            exp = [(float(t), k, vt.vkey(v) if k == "N" else None) for t, k, v in exp]
            if un_ is not None:
                t_un = t_sub + un_
                if any(e[0] == t_un for e in exp):
                    exp = None  # an event at the very instant of the unsubscription: either outcome
                else:
                    exp = [e for e in exp if e[0] < t_un]
            if i == 0:
                out.nontrivial = len(got) >= 2
            else:
                out.probes["second_subscriber_checked"] += 1
            g = vt.grammar_violation(rec)
            if g:
                out.bad("grammar", "%s: %s" % (tag, g))
            if exp is not None and got != exp:
                out.bad("delivery-mismatch", "%s: delivered %s, expected %s" % (tag, got[:10], exp[:10]))
        out.info = {"string": s, "timespan": ts, "form": sc["form"], "delivered": len(recs[0].events)}
        return out

    def signature(self, sc, rule, msg):
        return {"rule": rule, "form": sc.get("form")}


PROP = Prop()
