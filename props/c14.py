"""C14 Early termination cancels synchronous infinite sources."""
import itertools

import reactivex as rx
from reactivex import operators as ops
from reactivex.scheduler import CurrentThreadScheduler, ImmediateScheduler

from simlib import vt
from simlib.core import Outcome

PRODUCERS = ["from_iterable", "range", "repeat_value", "generate", "repeat"]
TERMINATORS = ["take", "first", "take_while", "element_at", "take_until", "find", "some", "contains", "slice"]
SHAPES = ["direct", "elementwise", "merge_last", "merge_first", "flat_map_inner", "concat_first", "concat_second", "switch_map_inner", "share",
          "amb_first", "amb_last", "with_latest_from_primary", "combine_latest_last", "publish_ref_count", "catch", "retry", "buffer_count", "group_by_merge"]
# shapes in which whatever must run for termination is queued on the trampoline behind the endless producer (family b of the known finding)
STARVING = ["flat_map_outer", "concat_map_outer", "merge_all_outer", "switch_map_outer", "combine_latest_first", "zip_first", "take_until_late_trigger",
            "observe_on_current_thread", "replay_ref_count"]
SCHEDULERS = ["default", "singleton", "singleton_from_other_thread", "fresh_current", "immediate"]


def _singleton_from_other_thread():
    """CurrentThreadScheduler.singleton() obtained on another thread (a module-level scheduler, say) and used here: documented to
    behave as if it had been obtained on the subscribing thread"""
    import threading
    box = []
    t = threading.Thread(target=lambda: box.append(CurrentThreadScheduler.singleton()))
    t.start()
    t.join()
    return box[0]
BUDGET = 400


class PreludeBoom(Exception):
    pass


class Counter:
    def __init__(self):
        self.n = 0
        self.after_return = 0
        self.returned = False

    def bump(self):
        self.n += 1
        if self.returned:
            self.after_return += 1
        if self.n > BUDGET:
            raise vt.Budget()


def endless(kind, c):
    """A synchronous never-ending source whose production is counted (and cut by the work budget)."""
    if kind == "from_iterable":
        def gen():
            for i in itertools.count():
                c.bump()
                yield i
        return rx.from_iterable(gen())
    count = ops.do_action(lambda _: c.bump())
    if kind == "range":
        return rx.range(0, 10 ** 12).pipe(count)
    if kind == "repeat_value":
        return rx.repeat_value(7).pipe(count)
    if kind == "generate":
        return rx.generate(0, lambda s: True, lambda s: s + 1).pipe(count)
    return rx.of(1, 2, 3).pipe(ops.repeat(), count)


def terminate(obs, term, n):
    if term == "take":
        return obs.pipe(ops.take(n))
    if term == "first":
        return obs.pipe(ops.first())
    if term == "take_while":
        return obs.pipe(ops.scan(lambda a, _: a + 1, 0), ops.take_while(lambda a: a < n + 1))
    if term == "element_at":
        return obs.pipe(ops.element_at(n))
    if term == "take_until":
        return obs.pipe(ops.take_until(rx.of(1)))
    if term == "find":
        return obs.pipe(ops.scan(lambda a, _: a + 1, 0), ops.find(lambda a, i, s: a >= n))
    if term == "some":
        return obs.pipe(ops.some())
    if term == "contains":
        return obs.pipe(ops.scan(lambda a, _: a + 1, 0), ops.contains(n + 1))
    return obs[:n + 1]


def shape(name, E):
    fin = rx.of("f1", "f2")
    if name == "direct":
        return E
    if name == "elementwise":
        return E.pipe(ops.map(lambda x: (x,)), ops.filter(lambda x: True), ops.skip(1), ops.pairwise())
    if name == "merge_last":
        return rx.merge(fin, E)
    if name == "merge_first":
        return rx.merge(E, fin)
    if name == "flat_map_inner":
        return rx.of(1).pipe(ops.flat_map(lambda _: E))
    if name == "concat_first":
        return rx.concat(E, fin)
    if name == "concat_second":
        return rx.concat(fin, E)
    if name == "switch_map_inner":
        return rx.of(1).pipe(ops.switch_map(lambda _: E))
    if name == "share":
        return E.pipe(ops.share())
    if name == "publish_ref_count":
        return E.pipe(ops.publish(), ops.ref_count())
    if name == "amb_first":
        return rx.amb(E, rx.never())
    if name == "amb_last":
        return rx.amb(rx.never(), E)
    if name == "with_latest_from_primary":
        return E.pipe(ops.with_latest_from(rx.of("w")))
    if name == "combine_latest_last":
        return rx.combine_latest(rx.of("c"), E)
    if name == "catch":
        return E.pipe(ops.catch(fin))
    if name == "retry":
        return E.pipe(ops.retry(2))
    if name == "buffer_count":
        return E.pipe(ops.buffer_with_count(2))
    if name == "group_by_merge":
        return E.pipe(ops.group_by(lambda x: 0), ops.flat_map(lambda g: g))
    # --- starving shapes
    if name == "flat_map_outer":
        return E.pipe(ops.flat_map(lambda x: rx.of(x)))
    if name == "concat_map_outer":
        return E.pipe(ops.concat_map(lambda x: rx.of(x)))
    if name == "merge_all_outer":
        return E.pipe(ops.map(lambda x: rx.of(x)), ops.merge_all())
    if name == "switch_map_outer":
        return E.pipe(ops.switch_map(lambda x: rx.of(x)))
    if name == "combine_latest_first":
        return rx.combine_latest(E, rx.of("c"))
    if name == "zip_first":
        return rx.zip(E, rx.of("z", "z", "z", "z", "z", "z", "z", "z", "z", "z"))
    if name == "take_until_late_trigger":
        return E  # the terminator itself is take_until (its trigger is subscribed after the endless source)
    if name == "observe_on_current_thread":
        return E.pipe(ops.observe_on(CurrentThreadScheduler.singleton()))
    if name == "replay_ref_count":
        return E.pipe(ops.replay(), ops.ref_count())
    raise ValueError(name)


class Prop:
    id = "C14"
    level = "exploration"
    engine = "VT (synchronous execution on the subscribing thread, work-budget watchdog)"
    quick_runs = 12000
    thorough_runs = 200000
    run_wall = 10.0
    hang_rule = "did-not-return"
    chunk = 100
    rule = ("seeded combinations of a synchronous never-ending producer (from_iterable over a counted endless iterator, range(0, 10^12), "
            "repeat_value, generate, repeat of a non-empty source), a carrier shape (direct, element-wise operators, merge, flat_map, "
            "concat, switch_map, share, publish+ref_count, amb, with_latest_from, combine_latest, catch, retry, buffer, group_by) and an "
            "early-terminating operator (take, first, take_while, element_at, take_until, find, some, contains, slice), subscribed (once, or twice in a row: the same observable object again after the first subscription ended) with "
            "the default scheduler, the current-thread singleton, a fresh CurrentThreadScheduler and an ImmediateScheduler. subscribe() "
            "must return after at most %d produced elements (the producer raises a BaseException beyond that, so no 'except Exception' "
            "can hide it) and nothing may be produced after it returned. Distinct = (producer, shape, terminator, scheduler, n); "
            "non-trivial = every run (each is a distinct configuration)." % BUDGET)
    assumptions = ["the work budget (%d elements) is far above what any listed terminator needs (at most n+2 <= 8 elements)" % BUDGET]
    stubs = []

    def generate(self, rng, tier):
        starving = rng.random() < 0.15
        return {"producer": rng.choice(PRODUCERS), "shape": rng.choice(STARVING if starving else SHAPES),
                "term": rng.choice(TERMINATORS), "n": rng.randrange(1, 6), "scheduler": rng.choice(SCHEDULERS + ["default", "default"]),
                "again": rng.random() < 0.35,  # subscribe the same observable object a second time after the first subscription ended
                # history of the thread: an earlier pipeline of two interleaved endless sources was abandoned because its observer raised
                "prelude": rng.choice([None, None, None, None, 1, 2, 5])}

    def execute(self, sc):
        out = Outcome()
        c = Counter()
        got = []
        desc = "producer=%s shape=%s terminator=%s n=%s scheduler=%s" % (sc["producer"], sc["shape"], sc["term"], sc["n"], sc["scheduler"])
        out.digest = (sc["producer"], sc["shape"], sc["term"], sc["n"], sc["scheduler"], bool(sc.get("again")))
        out.nontrivial = True
        out.probes["scheduler:" + sc["scheduler"]] += 1
        out.probes["shape:" + sc["shape"]] += 1
        term = "take_until" if sc["shape"] == "take_until_late_trigger" else sc["term"]
        obs = terminate(shape(sc["shape"], endless(sc["producer"], c)), term, sc["n"])
        sch = {"default": lambda: None, "singleton": CurrentThreadScheduler.singleton, "singleton_from_other_thread": _singleton_from_other_thread,
               "fresh_current": CurrentThreadScheduler, "immediate": ImmediateScheduler}[sc["scheduler"]]()
        if sc.get("prelude"):
            out.probes["prelude_abandoned_pipeline"] += 1
            desc += " [after a pipeline on the same thread whose observer raised at its element %d]" % sc["prelude"]
            seen = []

            def raiser(v):
                seen.append(v)
                if len(seen) >= sc["prelude"]:
                    raise PreludeBoom()

            try:
                rx.merge(endless("range", c), endless("range", c).pipe(ops.map(lambda v: -v))).subscribe(raiser)
            except PreludeBoom:
                pass
            except (vt.Budget, RecursionError):
                out.bad("did-not-terminate", "%s: the abandoned pipeline itself kept producing" % desc)
                return out
            c.n, c.after_return, c.returned = 0, 0, False
        for rnd in range(2 if sc.get("again") else 1):
            if rnd:
                desc += " [second subscription of the same observable]"
                out.probes["second_subscription"] += 1
                c.n, c.after_return, c.returned = 0, 0, False
                del got[:]
            try:
                sub = obs.subscribe(lambda v: got.append(("N", v)), lambda e: got.append(("E", e)), lambda: got.append(("C", None)), scheduler=sch)
                c.returned = True
                sub.dispose()
            except vt.Budget:
                out.bad("did-not-terminate", "%s: the producer was still running after %d elements (subscribe() had not returned; subscriber saw %d notifications)" % (desc, BUDGET, len(got)))
                return out
            except RecursionError:
                out.bad("did-not-terminate", "%s: unbounded recursion (RecursionError) before the early termination took effect" % desc)
                return out
            except PreludeBoom:
                out.bad("stale-work", "%s: work of the abandoned pipeline ran inside this subscribe() (its observer was called again)" % desc)
                return out
            if c.after_return:
                out.bad("produced-after-return", "%s: %d elements produced after subscribe() returned" % (desc, c.after_return))
            if not any(k in "CE" for k, _ in got):
                out.bad("no-termination", "%s: subscribe() returned but the subscriber saw no terminal notification (%r)" % (desc, got[:5]))
            if out.viol:
                break
        out.info = {"scenario": desc, "produced": c.n}
        return out

    def signature(self, sc, rule, msg):
        sched = sc.get("scheduler")
        term = "take_until" if sc.get("shape") == "take_until_late_trigger" else sc.get("term")
        prod, shp = sc.get("producer"), sc.get("shape")
        foreign = sched == "fresh_current" or (sched == "immediate" and (
            prod in ("from_iterable", "repeat", "repeat_value") or shp in ("combine_latest_first", "retry")))
        if foreign:
            # (a) a scheduler that is not the subscribing thread's trampoline runs the producer inside schedule(),
            # before its disposable exists (loop producers) or by unbounded recursion (re-subscribing producers)
            fam = "foreign-scheduler"
        elif sc.get("producer") == "from_iterable" and (sc.get("shape") in STARVING or term == "take_until"):
            fam = "starved-behind-loop-producer"  # (b) termination depends on work queued on the trampoline behind from_iterable's loop
        else:
            fam = "none"
        return {"rule": rule, "family": fam, "shape": sc.get("shape"), "scheduler": sched, "producer": sc.get("producer")}


PROP = Prop()
