"""C37 Source factories emit their specified sequences."""
from datetime import timedelta

import reactivex as rx

from simlib import models, multi, vt
from simlib.core import Outcome

FORMS = ["range", "range", "of", "from_iterable", "from_iterable_gen", "return_value", "empty", "never", "throw", "generate", "generate_rel", "generate_rel",
         "timer", "timer_timedelta", "timer_abs", "repeat_value"]


def loop_fns(a):
    """deterministic loop functions from small integer parameters"""
    limit, step, mul = a["limit"], a["step"], a["mul"]
    cond = lambda s: s < limit  # noqa: E731

    def it(s):
        if not cond(s):
            raise LookupError("iterate called on state %r, which the loop never reaches" % (s,))  # partial, like a table lookup
        return s * 2 + step if mul else s + step
    return cond, it


class Prop:
    id = "C37"
    level = "exploration"
    engine = "VT"
    quick_runs = 200000
    thorough_runs = 2000000
    rule = ("seeded arguments for range (negative steps, empty ranges, one- and two-argument forms), of / from_iterable (lists, tuples, "
            "generators, falsy elements), return_value, empty, never, throw, generate (bounded loops), generate_with_relative_time "
            "(per-state delays including zero and timedelta values), timer (float / timedelta / absolute due time) and "
            "repeat_value(v, n), subscribed on numeric and datetime virtual clocks; emitted values, virtual times and terminal "
            "compared with the equivalent Python computation. Distinct = (form, args, output); non-trivial = at least two notifications.")
    assumptions = ["essentially seeded input generation against a model; the simulated dimension is the virtual clock (delays, zero delays, clock kind)"]
    stubs = []

    def generate(self, rng, tier):
        form = rng.choice(FORMS)
        a = {}
        if form == "range":
            nargs = rng.choice([1, 2, 3, 3])
            a = {"start": rng.randrange(-5, 8), "stop": rng.randrange(-6, 10), "step": rng.choice([1, 1, 2, 3, -1, -2, -3]), "nargs": nargs}
        elif form in ("of", "from_iterable", "from_iterable_gen"):
            a = {"v": [vt.gen_value(rng, 0.5) for _ in range(rng.randrange(0, 6))], "tuple": rng.random() < 0.3}
        elif form in ("return_value", "repeat_value"):
            a = {"v": vt.gen_value(rng, 0.5), "n": rng.randrange(0, 5)}
        elif form in ("generate", "generate_rel"):
            a = {"init": rng.randrange(0, 4), "limit": rng.randrange(0, 12), "step": rng.choice([1, 2, 3]), "mul": rng.random() < 0.3,
                 "delays": [rng.choice([0, 0, 5, 10, 30]) for _ in range(4)], "td": rng.random() < 0.3}
        elif form.startswith("timer"):
            a = {"d": rng.choice([0, 5, 10, 50, 120])}
        sc = {"clock": rng.choice(["test", "historical", "vts"]), "form": form, "a": a, "sources": [], "sub_t": 205, "horizon": 1500}
        off = rng.choice([None, None, None, 37, 123, 411])
        if off and form != "from_iterable_gen":  # (a generator object can be iterated once: nothing is stated about a second subscription)
            sc["sub2_t"] = 205 + off  # the same factory-made observable subscribed a second time
        return sc

    def build(self, w, sc):
        f, a = sc["form"], sc["a"]
        if f == "range":
            if a["nargs"] == 1:
                return rx.range(a["stop"])
            if a["nargs"] == 2:
                return rx.range(a["start"], a["stop"])
            return rx.range(a["start"], a["stop"], a["step"])
        vals = [vt.dec(x) for x in a.get("v", [])] if isinstance(a.get("v"), list) else None
        if f == "of":
            return rx.of(*vals)
        if f == "from_iterable":
            return rx.from_iterable(tuple(vals) if a["tuple"] else vals)
        if f == "from_iterable_gen":
            return rx.from_iterable(x for x in vals)
        if f == "return_value":
            return rx.return_value(vt.dec(a["v"]))
        if f == "empty":
            return rx.empty()
        if f == "never":
            return rx.never()
        if f == "throw":
            return rx.throw(vt.SourceError("t"))
        if f == "repeat_value":
            return rx.repeat_value(vt.dec(a["v"]), a["n"])
        if f == "generate":
            cond, it = loop_fns(a)
            return rx.generate(a["init"], cond, it)
        if f == "generate_rel":
            cond, it = loop_fns(a)
            ds = a["delays"]
            def tmap(s):
                if not cond(s):
                    raise LookupError("time mapper called on state %r, which the loop never emits" % (s,))  # a delay table with one entry per emitted state
                d = ds[s % len(ds)]
                return timedelta(seconds=d) if a["td"] else (float(d) if d else 0)
            return rx.generate_with_relative_time(a["init"], cond, it, tmap)
        if f == "timer":
            return rx.timer(float(a["d"]))
        if f == "timer_timedelta":
            return rx.timer(timedelta(seconds=a["d"]))
        return rx.timer(vt.UTC0 + timedelta(seconds=sc["sub_t"] + a["d"]))

    def expected(self, sc, t0=None):
        f, a = sc["form"], sc["a"]
        t0 = float(sc["sub_t"] if t0 is None else t0)
        if f == "range":
            r = range(a["stop"]) if a["nargs"] == 1 else (range(a["start"], a["stop"]) if a["nargs"] == 2 else range(a["start"], a["stop"], a["step"]))
            return [(t0, "N", v) for v in r] + [(t0, "C", None)]
        if f in ("of", "from_iterable", "from_iterable_gen"):
            return [(t0, "N", vt.dec(x)) for x in a["v"]] + [(t0, "C", None)]
        if f == "return_value":
            return [(t0, "N", vt.dec(a["v"])), (t0, "C", None)]
        if f == "empty":
            return [(t0, "C", None)]
        if f == "never":
            return []
        if f == "throw":
            return [(t0, "E", vt.SourceError("t"))]
        if f == "repeat_value":
            return [(t0, "N", vt.dec(a["v"]))] * a["n"] + [(t0, "C", None)]
        if f in ("generate", "generate_rel"):
            cond, it = loop_fns(a)
            s, t, out, guard = a["init"], t0, [], 0
            while cond(s) and guard < 50:
                if f == "generate_rel":
                    t += a["delays"][s % len(a["delays"])]
                out.append((t, "N", s))
                s = it(s)
                guard += 1
            return out + [(t, "C", None)]
        if f == "timer_abs":
            t = max(t0, float(sc["sub_t"]) + a["d"])  # an absolute due time: the same instant for every subscription (at once if it has passed)
            return [(t, "N", 0), (t, "C", None)]
        return [(t0 + a["d"], "N", 0), (t0 + a["d"], "C", None)]

    def execute(self, sc):
        out = Outcome()
        desc = "form=%s args=%s clock=%s" % (sc["form"], sc["a"], sc["clock"])
        out.probes["form:" + sc["form"]] += 1
        w, recs = multi.run_real_multi(sc, self.build)
        rec = recs[0]
        out.sim_time = sc["horizon"]
        if w.escaped:
            out.bad("escaped", "%s: %r" % (desc, w.escaped[0][2:]))
        for i, (t0, r) in enumerate(zip(multi.sub_times(sc), recs)):
            tag = desc if i == 0 else "%s [second subscription of the same observable at t=%s]" % (desc, t0)
            got = models.norm(r.events_kv())
            want = models.norm(self.expected(sc, t0))
            if i == 0:
                out.nontrivial = len(got) >= 2
                out.digest = (sc["form"], repr(sc["a"]), tuple(got), sc.get("sub2_t"))
            else:
                out.probes["second_subscription_checked"] += 1
            g = vt.grammar_violation(r)
            if g:
                out.bad("grammar", "%s: %s" % (tag, g))
            if got != want:
                out.bad("factory-mismatch", "%s: got %s, expected %s" % (tag, got[:10], want[:10]))
        out.info = {"form": sc["form"], "args": sc["a"], "got": rec.kinds()}
        return out

    def signature(self, sc, rule, msg):
        return {"rule": rule, "form": sc.get("form")}


PROP = Prop()
