"""C03 Unsubscribing silences the subscriber and frees its sources."""
import json

from simlib import catalog, pipe
from simlib.core import Outcome


class Prop:
    id = "C03"
    level = "fault_enumeration"
    engine = "VT"
    quick_runs = 10000
    thorough_runs = 200000
    chunk = 40
    rule = ("per seeded pipeline scenario (depth 1-3, 1-3 sources) an undisturbed run collects every distinct virtual instant; then one run "
            "per dispose point: (each instant) x {early tie, late tie}, inside the k-th subscriber notification, inside the k-th call of a "
            "callback site, and right after subscribe() returns. After dispose() returned: no notification, no instrumented callback, no new "
            "source subscription, and every source subscription opened for the subscriber closed by the end of that virtual instant. "
            "evaluations counts executed runs; distinct = (operators, dispose point, observed kinds); non-trivial = the dispose cut a live "
            "subscription (the undisturbed run produced a later event). 15% of the scenarios use library sources (generate, range, from_iterable, "
            "repeat_value, defer, create+subscribe_on) on the current-thread trampoline instead: subscribed from inside a trampolined "
            "action so that their work queues up, then unsubscribed (explicitly - before the work runs, from a queued action, from inside a notification - or by take(k)); no "
            "callback of any source may run afterwards.")
    assumptions = ["single thread / virtual time", "window and group subscribers are unsubscribed together with the root (the statement's exception for live group/window subscribers is not exercised strictly: a second variant leaves them alive and only checks root silence)",
                   "rogue sources excluded"]
    stubs = []

    def generate(self, rng, tier):
        if rng.random() < 0.15:
            return self.gen_trampoline(rng)
        depth = rng.choice([1, 1, 2, 2, 3])
        sc = pipe.gen(rng, depth, max_sources=3)
        sc["keep_children"] = rng.random() < 0.2
        for s in sc["sources"]:
            if rng.random() < 0.1:
                s["on_dispose"] = rng.choice(["N", "C", "E"])  # calls its observer from inside the disposal of its subscription
        return sc

    def points(self, sc):
        base = pipe.Run(sc)
        w, rec = base.w, base.rec
        ts = set([sc["sub_t"]])
        for r in rec.all_recorders():
            ts.update(e[1] for e in r.events)
        for s in w.sources.values():
            for x in s.subs:
                ts.add(x.sub_t)
                if x.disp_t is not None:
                    ts.add(x.disp_t)
        ts.update(c[1] for c in w.calls)
        ts = sorted(t for t in ts if t >= sc["sub_t"])[:14]
        pts = []
        for t in ts:
            t = int(t) if float(t).is_integer() else t
            pts.append({"t": t, "tie": "early"})
            pts.append({"t": t, "tie": "late"})
        if ts:
            pts.append({"t": int(ts[-1]) + 5, "tie": "early"})
        for k in range(min(len(rec.events), 4)):
            pts.append({"note": k})
        for site, n in sorted(w.counts.items())[:4]:
            for k in range(min(n, 3)):
                pts.append({"site": site, "k": k})
        last_seq = max([e[0] for r in rec.all_recorders() for e in r.events] + [c[0] for c in w.calls] + [0])
        return pts, base, last_seq

    # ------------------------------------------------------------ library sources on the current-thread trampoline
    T_KINDS = ["generate", "generate", "range", "from_iterable", "repeat_value", "create_subscribe_on", "defer_generate"]

    def gen_trampoline(self, rng):
        return {"mode": "trampoline", "srcs": [{"kind": rng.choice(self.T_KINDS), "n": rng.randrange(1, 5)} for _ in range(rng.choice([1, 2, 2, 3]))],
                "comb": rng.choice(["merge", "merge", "concat", "zip", "combine_latest", "amb", "flat_map"]),
                "take": rng.choice([None, None, 1, 1, 2]), "dispose": rng.choice(["pre_queued", "pre_queued", "after_subscribe", "in_note", None]),
                "note": rng.randrange(0, 3)}

    def exec_trampoline(self, sc):
        """The subscription is made from inside an action of the current-thread scheduler, so everything the library sources
        schedule queues up behind it; the subscriber unsubscribes before that work runs (explicitly, from a queued action of
        its own, or because take(k) is satisfied by the first source).  Nothing of a source that was unsubscribed before its
        queued work started may run afterwards."""
        import reactivex as rx
        from reactivex import operators as ops
        from reactivex.scheduler import CurrentThreadScheduler
        out = Outcome()
        tick = [0]
        calls = []  # (tick, source index, what)
        notes = []  # (tick, kind)
        running = []

        def cb(i, what):
            tick[0] += 1
            calls.append((tick[0], i, what))

        def src(i, spec):
            k, n = spec["kind"], spec["n"]

            def gen_():
                return rx.generate(0, lambda s_: cb(i, "condition") or s_ < n, lambda s_: cb(i, "iterate") or s_ + 1)
            if k == "generate":
                return gen_()
            if k == "defer_generate":
                return rx.defer(lambda sch: cb(i, "factory") or gen_())
            if k == "range":
                return rx.range(0, n).pipe(ops.map(lambda v: cb(i, "map") or v))
            if k == "from_iterable":
                def it():
                    for v in range(n):
                        cb(i, "next()")
                        yield v
                return rx.from_iterable(it())
            if k == "repeat_value":
                return rx.repeat_value(i, n).pipe(ops.map(lambda v: cb(i, "map") or v))

            def subscribe(observer, scheduler=None):
                cb(i, "create.subscribe")
                for v in range(n):
                    observer.on_next(v)
                observer.on_completed()
            return rx.create(subscribe).pipe(ops.subscribe_on(CurrentThreadScheduler.singleton()))

        xs = [src(i, s_) for i, s_ in enumerate(sc["srcs"])]
        comb = sc["comb"]
        if len(xs) == 1:
            obs = xs[0]
        elif comb == "merge":
            obs = rx.merge(*xs)
        elif comb == "concat":
            obs = rx.concat(*xs)
        elif comb == "zip":
            obs = rx.zip(*xs)
        elif comb == "combine_latest":
            obs = rx.combine_latest(*xs)
        elif comb == "amb":
            obs = rx.amb(*xs)
        else:
            obs = rx.from_iterable(list(range(len(xs)))).pipe(ops.flat_map(lambda j: xs[j]))
        if sc["take"]:
            obs = obs.pipe(ops.take(sc["take"]))
        box = {"disp_ret": None, "term": None}

        def note(kind):
            tick[0] += 1
            notes.append((tick[0], kind))
            if kind in "CE" and box["term"] is None:
                box["term"] = tick[0]
            if kind == "N" and sc["dispose"] == "in_note" and sum(1 for n_ in notes if n_[1] == "N") - 1 == sc.get("note", 0):
                do_dispose()  # from inside the k-th on_next (only possible once subscribe() has handed the subscription back)

        def do_dispose():
            if box.get("sub") is not None and box["disp_ret"] is None:
                box["sub"].dispose()
                tick[0] += 1
                box["disp_ret"] = tick[0]

        def outer(sch, st=None):
            if sc["dispose"] == "pre_queued":
                sch.schedule(lambda s2, st2=None: do_dispose())
            box["sub"] = obs.subscribe(lambda v: note("N"), lambda e: note("E"), lambda: note("C"))
            if sc["dispose"] == "after_subscribe":
                do_dispose()

        esc = None
        try:
            CurrentThreadScheduler.singleton().schedule(outer)
        except Exception as e:  # noqa: BLE001
            esc = e
        started = {}
        for t, i, what in calls:
            started.setdefault(i, t)
        out.digest = ("trampoline", repr(sc["srcs"]), sc["comb"], sc["take"], sc["dispose"], len(calls), "".join(k for _, k in notes))
        out.nontrivial = box["disp_ret"] is not None or box["term"] is not None
        out.probes["trampoline_mode"] += 1
        desc = "trampoline sources=%s comb=%s take=%s dispose=%s" % (sc["srcs"], sc["comb"], sc["take"], sc["dispose"])
        if esc is not None:
            out.bad("escaped", "%s: %r escaped the trampoline" % (desc, esc))
            return out
        cut = box["disp_ret"]
        if cut is not None:
            out.faults["dispose_trampoline"] += 1
            late_n = [n_ for n_ in notes if n_[0] > cut]
            if late_n:
                out.bad("notify-after-dispose", "%s: %d notification(s) after dispose() returned" % (desc, len(late_n)))
            late = [c for c in calls if c[0] > cut]
            if late and not out.viol:
                out.bad("callback-after-dispose", "%s: %s of source %d ran after dispose() had returned (the subscription was unsubscribed while that work was still queued)" % (desc, late[0][2], late[0][1]))
        elif box["term"] is not None:
            # nothing of any source runs once the subscriber's terminal notification has been delivered: queued work is cancelled,
            # a loop that is emitting right now stops without pulling another element
            after = [c for c in calls if c[0] > box["term"]]
            if after:
                out.bad("callback-after-dispose", "%s: %s of source %d ran after the subscriber had terminated" % (desc, after[0][2], after[0][1]))
        out.info = {"scenario": desc, "calls": len(calls)}
        return out

    def execute(self, sc):
        if sc.get("mode") == "trampoline":
            return self.exec_trampoline(sc)
        if "dispose" in sc:
            return self.one(sc, Outcome())
        out = Outcome()
        pts, base, _ = self.points(sc)
        ops = catalog.ops_of(sc["program"])
        out.evals = 1
        out.digests = []
        out.sim_time = sc["horizon"]
        base_events = [(e[1], e[0]) for r in base.rec.all_recorders() for e in r.events]
        for d in pts:
            one = dict(sc)
            one["dispose"] = d
            one["dispose_children"] = not sc.get("keep_children")
            o = Outcome()
            self.one(one, o)
            out.evals += 1
            out.sim_time += sc["horizon"]
            out.faults["dispose_" + ("note" if "note" in d else "callback" if "site" in d else d["tie"])] += 1
            out.probes.update(o.probes)
            out.faults.update(o.faults)
            out.digests.append((o.digest, o.nontrivial))
            if o.viol and not out.viol:
                out.viol = o.viol
                out.witness = one
        out.info = {"ops": ops, "dispose_points": len(pts)}
        return out

    def one(self, sc, out):
        run = pipe.Run(sc)
        w, rec = run.w, run.rec
        ops = catalog.ops_of(sc["program"])
        d = sc["dispose"]
        out.digest = (tuple(ops), json.dumps(d, sort_keys=True), rec.kinds())
        out.sim_time = sc["horizon"]
        n_emit = len([f for f in w.fired if f[1].endswith(":emits_on_dispose")])
        if n_emit:
            out.faults["source_emits_on_dispose"] += n_emit
        dr = rec.disp_ret_seq
        if dr is None:
            out.probes["dispose_not_reached"] += 1
            return out
        t_disp = rec.disp_t
        desc = "dispose=%s program=%s" % (d, ops)
        if rec.terminal() is None:
            out.nontrivial = True
        if "t" in d and d["tie"] == "late":
            out.probes["dispose_same_tick_late"] += 1
        strict = sc.get("dispose_children", True)
        recs = list(rec.all_recorders()) if strict else [rec]
        for r in recs:
            late = [e for e in r.events if e[0] > dr]
            if late:
                out.bad("notify-after-dispose", "%s: recorder %s received %s at t=%s after dispose() returned (t=%s)" % (desc, r.name, late[0][2], late[0][1], t_disp))
                return out
        if strict:
            reentrant = "t" not in d
            # a dispose issued from inside a callback/notification returns into operator code that is still
            # processing the current notification; only callbacks at a later virtual instant are flagged there
            # subscribe_on unsubscribes through the scheduler (later in the same instant); finally-actions are meant to run on disposal
            relaxed = reentrant or "subscribe_on" in ops
            fin = set(n["id"] for n in _nodes(sc["program"]) if n["op"] in ("finally_action", "do_finally"))
            late_cb = [c for c in w.calls if c[0] > dr and (not relaxed or c[1] > t_disp) and c[2].split(".")[0] not in fin]
            if late_cb:
                out.bad("callback-after-dispose", "%s: callback %s ran at t=%s after dispose() returned (t=%s)" % (desc, late_cb[0][2], late_cb[0][1], t_disp))
                return out
            for src in w.sources.values():
                for s in src.subs:
                    if s.sub_seq > dr and s.sub_t > t_disp:
                        out.bad("subscribe-after-dispose", "%s: source %s subscribed at t=%s after dispose() returned (t=%s)" % (desc, src.sid, s.sub_t, t_disp))
                        return out
                    if s.open():
                        out.bad("leak-after-dispose", "%s: source %s subscription %s never closed (dispose at t=%s)" % (desc, src.sid, s.as_tuple(), t_disp))
                        return out
                    if s.disp_t > t_disp:
                        out.bad("late-close-after-dispose", "%s: source %s subscription %s closed after the dispose instant t=%s" % (desc, src.sid, s.as_tuple(), t_disp))
                        return out
        return out

    signature = staticmethod(pipe.signature)


def _nodes(node):
    if isinstance(node, dict):
        yield node
        for x in node["in"]:
            yield from _nodes(x)


PROP = Prop()
