"""C03 Unsubscribing silences the subscriber and frees its sources."""
import json

from simlib import catalog, pipe
from simlib.core import Outcome


class Prop:
    id = "C03"
    level = "fault_enumeration"
    engine = "VT"
    quick_runs = 10000
    thorough_runs = 200000
    chunk = 40
    rule = ("per seeded pipeline scenario (depth 1-3, 1-3 sources) an undisturbed run collects every distinct virtual instant; then one run "
            "per dispose point: (each instant) x {early tie, late tie}, inside the k-th subscriber notification, inside the k-th call of a "
            "callback site, and right after subscribe() returns. After dispose() returned: no notification, no instrumented callback, no new "
            "source subscription, and every source subscription opened for the subscriber closed by the end of that virtual instant. "
            "evaluations counts executed runs; distinct = (operators, dispose point, observed kinds); non-trivial = the dispose cut a live "
            "subscription (the undisturbed run produced a later event).")
    assumptions = ["single thread / virtual time", "window and group subscribers are unsubscribed together with the root (the statement's exception for live group/window subscribers is not exercised strictly: a second variant leaves them alive and only checks root silence)",
                   "rogue sources excluded"]
    stubs = []

    def generate(self, rng, tier):
        depth = rng.choice([1, 1, 2, 2, 3])
        sc = pipe.gen(rng, depth, max_sources=3)
        sc["keep_children"] = rng.random() < 0.2
        return sc

    def points(self, sc):
        base = pipe.Run(sc)
        w, rec = base.w, base.rec
        ts = set([sc["sub_t"]])
        for r in rec.all_recorders():
            ts.update(e[1] for e in r.events)
        for s in w.sources.values():
            for x in s.subs:
                ts.add(x.sub_t)
                if x.disp_t is not None:
                    ts.add(x.disp_t)
        ts.update(c[1] for c in w.calls)
        ts = sorted(t for t in ts if t >= sc["sub_t"])[:14]
        pts = []
        for t in ts:
            t = int(t) if float(t).is_integer() else t
            pts.append({"t": t, "tie": "early"})
            pts.append({"t": t, "tie": "late"})
        if ts:
            pts.append({"t": int(ts[-1]) + 5, "tie": "early"})
        for k in range(min(len(rec.events), 4)):
            pts.append({"note": k})
        for site, n in sorted(w.counts.items())[:4]:
            for k in range(min(n, 3)):
                pts.append({"site": site, "k": k})
        last_seq = max([e[0] for r in rec.all_recorders() for e in r.events] + [c[0] for c in w.calls] + [0])
        return pts, base, last_seq

    def execute(self, sc):
        if "dispose" in sc:
            return self.one(sc, Outcome())
        out = Outcome()
        pts, base, _ = self.points(sc)
        ops = catalog.ops_of(sc["program"])
        out.evals = 1
        out.digests = []
        out.sim_time = sc["horizon"]
        base_events = [(e[1], e[0]) for r in base.rec.all_recorders() for e in r.events]
        for d in pts:
            one = dict(sc)
            one["dispose"] = d
            one["dispose_children"] = not sc.get("keep_children")
            o = Outcome()
            self.one(one, o)
            out.evals += 1
            out.sim_time += sc["horizon"]
            out.faults["dispose_" + ("note" if "note" in d else "callback" if "site" in d else d["tie"])] += 1
            out.probes.update(o.probes)
            out.digests.append((o.digest, o.nontrivial))
            if o.viol and not out.viol:
                out.viol = o.viol
                out.witness = one
        out.info = {"ops": ops, "dispose_points": len(pts)}
        return out

    def one(self, sc, out):
        run = pipe.Run(sc)
        w, rec = run.w, run.rec
        ops = catalog.ops_of(sc["program"])
        d = sc["dispose"]
        out.digest = (tuple(ops), json.dumps(d, sort_keys=True), rec.kinds())
        out.sim_time = sc["horizon"]
        dr = rec.disp_ret_seq
        if dr is None:
            out.probes["dispose_not_reached"] += 1
            return out
        t_disp = rec.disp_t
        desc = "dispose=%s program=%s" % (d, ops)
        if rec.terminal() is None:
            out.nontrivial = True
        if "t" in d and d["tie"] == "late":
            out.probes["dispose_same_tick_late"] += 1
        strict = sc.get("dispose_children", True)
        recs = list(rec.all_recorders()) if strict else [rec]
        for r in recs:
            late = [e for e in r.events if e[0] > dr]
            if late:
                out.bad("notify-after-dispose", "%s: recorder %s received %s at t=%s after dispose() returned (t=%s)" % (desc, r.name, late[0][2], late[0][1], t_disp))
                return out
        if strict:
            reentrant = "t" not in d
            # a dispose issued from inside a callback/notification returns into operator code that is still
            # processing the current notification; only callbacks at a later virtual instant are flagged there
            # subscribe_on unsubscribes through the scheduler (later in the same instant); finally-actions are meant to run on disposal
            relaxed = reentrant or "subscribe_on" in ops
            fin = set(n["id"] for n in _nodes(sc["program"]) if n["op"] in ("finally_action", "do_finally"))
            late_cb = [c for c in w.calls if c[0] > dr and (not relaxed or c[1] > t_disp) and c[2].split(".")[0] not in fin]
            if late_cb:
                out.bad("callback-after-dispose", "%s: callback %s ran at t=%s after dispose() returned (t=%s)" % (desc, late_cb[0][2], late_cb[0][1], t_disp))
                return out
            for src in w.sources.values():
                for s in src.subs:
                    if s.sub_seq > dr and s.sub_t > t_disp:
                        out.bad("subscribe-after-dispose", "%s: source %s subscribed at t=%s after dispose() returned (t=%s)" % (desc, src.sid, s.sub_t, t_disp))
                        return out
                    if s.open():
                        out.bad("leak-after-dispose", "%s: source %s subscription %s never closed (dispose at t=%s)" % (desc, src.sid, s.as_tuple(), t_disp))
                        return out
                    if s.disp_t > t_disp:
                        out.bad("late-close-after-dispose", "%s: source %s subscription %s closed after the dispose instant t=%s" % (desc, src.sid, s.as_tuple(), t_disp))
                        return out
        return out

    signature = staticmethod(pipe.signature)


def _nodes(node):
    if isinstance(node, dict):
        yield node
        for x in node["in"]:
            yield from _nodes(x)


PROP = Prop()
