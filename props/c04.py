"""C04 Cold observables can be subscribed again with identical results."""
from simlib import catalog, pipe, vt
from simlib.core import Outcome

EXCLUDE = {"multicast", "stateful"}


def allow(r):
    return not (r.tags & EXCLUDE)


class Prop:
    id = "C04"
    level = "exploration"
    engine = "VT"
    quick_runs = 30000
    thorough_runs = 1000000
    rule = ("seeded cold pipelines (depth 1-3, cold/sync sources, non-multicasting operators, deterministic callbacks, re-iterable argument "
            "collections); ONE observable object is subscribed 2-4 times at seeded, sequential and overlapping virtual times (offsets also chosen so that notifications of two overlapping subscriptions fall on one instant); each "
            "subscription is compared (values, virtual times, terminal) with the first subscription of a FRESHLY BUILT identical pipeline "
            "subscribed at the same time in a twin world, and the per-source subscription counts must add up. Distinct = (operators, "
            "subscription times, first recorder's kinds); non-trivial = at least two subscriptions each observed a notification.")
    assumptions = ["callbacks are deterministic functions of their arguments and of the virtual clock", "one-shot iterators as arguments are excluded (not re-iterable by definition)",
                   "publish/share/replay/ref_count and subjects excluded by the statement"]
    stubs = []

    def generate(self, rng, tier):
        depth = rng.choice([1, 1, 2, 2, 3])
        sc = pipe.gen(rng, depth, allow, kinds=["cold", "cold", "cold", "sync"], max_sources=3)
        # fallback operators only do something when their sources fail: most of their direct sources end in an error of their own
        src = {s_["id"]: s_ for s_ in sc["sources"]}

        def walk(node):
            if isinstance(node, dict):
                if node["op"] in ("rx.catch", "catch", "rx.catch_with_iterable", "rx.on_error_resume_next", "on_error_resume_next", "retry", "catch_handler"):
                    for x in node["in"]:
                        ev = src[x]["events"] if isinstance(x, str) else None
                        if ev and ev[-1][1] in "CE" and rng.random() < 0.7:
                            ev[-1] = [ev[-1][0], "E", {"err": "e-" + x}]
                for x in node["in"]:
                    walk(x)

        walk(sc["program"])
        n = rng.choice([2, 2, 3, 4])
        t = sc["sub_t"]
        subs = [t]
        # offsets that make notifications of two overlapping subscriptions coincide: event times of the (cold) sources and sums of two
        ets = sorted(set(e[0] for s in sc["sources"] for e in s["events"] if e[0] > 0))
        terms = sorted(set(e[0] for s in sc["sources"] for e in s["events"] if e[0] > 0 and e[1] in "CE"))
        coincide = sorted(set(ets + [a + b for a in ets for b in ets]))[:40] + terms * 4  # mostly: when a source ends (its successor starts)
        for _ in range(n - 1):
            t += rng.choice(coincide) if coincide and rng.random() < 0.5 else rng.choice([0, 10, 50, 95, 400, 900])
            subs.append(t)
        sc["subs"] = subs
        sc["horizon"] = subs[-1] + 2500
        return sc

    def run(self, sc, times):
        w = vt.World(sc["clock"])
        vt.make_sources(w, sc["sources"])
        obs = catalog.build(w, sc["program"])
        recs = []
        for i, t in enumerate(times):
            r = vt.Recorder(w, "r%d" % i)
            recs.append(r)
            w.at(t, (lambda r=r: self.sub(r, obs)))
        w.run(sc["horizon"])
        return w, recs

    @staticmethod
    def sub(r, obs):
        try:
            r.subscribe(obs)
        except Exception as e:
            r.events.append((r.w.tick(), r.w.now(), "E", e))

    def execute(self, sc):
        out = Outcome()
        ops = catalog.ops_of(sc["program"])
        wa, ra = self.run(sc, sc["subs"])
        out.digest = (tuple(ops), tuple(sc["subs"]), ra[0].kinds())
        out.sim_time = sc["horizon"]
        out.evals = 1 + len(sc["subs"])
        out.nontrivial = sum(1 for r in ra if r.events) >= 2
        counts = {}
        for i, t in enumerate(sc["subs"]):
            wb, rb = self.run(sc, [t])
            a, b = ra[i].timed(), rb[0].timed()
            if a != b:
                out.bad("resubscription-differs", "program=%s: subscription #%d (t=%s) of the shared object saw %s; a fresh object subscribed then sees %s" % (ops, i, t, a[:8], b[:8]))
                return out
            for sid, s in wb.sources.items():
                counts[sid] = counts.get(sid, 0) + len(s.subs)
        for sid, s in wa.sources.items():
            if len(s.subs) != counts.get(sid, 0):
                out.bad("source-subscriptions-differ", "program=%s: source %s was subscribed %d times by the shared object, %d times by fresh objects" % (ops, sid, len(s.subs), counts.get(sid, 0)))
                return out
        if len(set(sc["subs"])) < len(sc["subs"]):
            out.probes["same_instant_subscriptions"] += 1
        for o in set(ops):
            out.probes["op:" + o] += 1
        out.info = {"ops": ops, "subs": sc["subs"], "first": ra[0].kinds()}
        return out

    signature = staticmethod(pipe.signature)


PROP = Prop()
