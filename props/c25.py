"""C25 A disposable's action runs at most once (TH engine)."""
import random

from simlib import disp, th
from simlib.core import Outcome


class Prop:
    id = "C25"
    level = "exploration"
    engine = "TH (controlled threads: baton passing, line-level pre-emption points, simulated locks)"
    quick_runs = 30000
    thorough_runs = 400000
    chunk = 100
    time_unit = "simulated microseconds"
    rule = ("Disposable / BooleanDisposable: 1 thread x 2-7 calls or 2-3 controlled threads x 1-3 calls of dispose()/is_disposed with 0-3 "
            "forced pre-emptions (site-first sampling over a dry run); the history must be linearizable against the sequential model "
            "(action exactly once, by the first dispose; is_disposed true once a dispose returned) and the action never runs twice. "
            "ScheduledDisposable: 2-3 threads dispose concurrently, the wrapped resource must be disposed exactly once and on the "
            "scheduler (the simulated EventLoopScheduler's thread or, single-threaded, a virtual-time scheduler's start()). Distinct = (kind, "
            "scripts, context-switch sequence); non-trivial = more context switches than threads.")
    assumptions = ["pre-emption at line/return granularity of repo code and at every simulated lock operation"]
    stubs = ["threading.RLock/Lock/Condition/Thread (simulated)"]
    real = ["reactivex/disposable/disposable.py, booleandisposable.py, scheduleddisposable.py", "reactivex/scheduler/eventloopscheduler.py (for ScheduledDisposable)"]

    def generate(self, rng, tier):
        if rng.random() < 0.3:
            n = rng.choice([1, 2, 2, 3])
            return {"kind": "scheduled", "on": rng.choice(["eventloop", "eventloop", "virtual"]), "threads": [rng.randrange(1, 3) for _ in range(n)],
                    "sched": {"seed": rng.getrandbits(32), "k": rng.choice([0, 1, 2, 3])}}
        return disp.gen(rng, ["disposable", "boolean"])

    def execute(self, sc):
        if sc["kind"] != "scheduled":
            return disp.execute(sc, self.id)
        return self.exec_scheduled(sc)

    def exec_scheduled(self, sc):
        out = Outcome()
        sched = sc["sched"]
        state = {}

        def body(sim, shim):
            from reactivex.disposable import ScheduledDisposable
            from reactivex.scheduler import EventLoopScheduler, VirtualTimeScheduler
            log = []
            item = disp.Item(sim, "resource", False, log)
            state["log"], state["item"] = log, item
            state["threads"] = []

            def where():
                return sim.current.name

            orig = item.dispose

            def dispose():
                state["threads"].append(where())
                orig()

            item.dispose = dispose
            virtual = sc["on"] == "virtual"
            s = VirtualTimeScheduler(0.0) if virtual else EventLoopScheduler(exit_if_empty=True)
            d = ScheduledDisposable(s, item)
            sim.mark()

            def worker(n):
                def run():
                    for _ in range(n):
                        d.dispose()
                return run

            if virtual:
                for n in sc["threads"]:
                    worker(n)()
                state["before_start"] = item.count
                s.start()
            else:
                for i, n in enumerate(sc["threads"]):
                    sim.spawn(worker(n), "w%d" % i, "work")

        cps = sc.get("cps")
        if cps is None and sc["on"] != "virtual" and sched["k"]:
            sim = th.run_sim(body, sched["seed"], (), record=True)
            cps = th.choose_cps(random.Random(sched["seed"] ^ 0x5DEECE66D), sim.sites, sim.marker or 0, sim.steps, sched["k"])
            out.evals += 1
        cps = cps or []
        sim = th.run_sim(body, sched["seed"], cps)
        dig = th.interleaving_digest(sim)
        out.digest = ("scheduled", sc["on"], tuple(sc["threads"]), dig)
        out.steps = sim.steps
        out.faults.update({k: v for k, v in sim.faults.items() if v})
        out.nontrivial = len(dig) > len(sc["threads"])
        out.probes["kind:scheduled:" + sc["on"]] += 1
        desc = "ScheduledDisposable on %s, dispose calls per thread %s, cps=%s" % (sc["on"], sc["threads"], cps)
        if sim.failure:
            out.bad(sim.failure[0], "%s: %s" % (desc, sim.failure[1]))
        elif sim.thread_errors:
            out.bad("thread-exception", "%s: %r" % (desc, sim.thread_errors[0]))
        else:
            c = state["item"].count
            if c != 1:
                out.bad("scheduled-dispose-count", "%s: wrapped resource disposed %d times" % (desc, c))
            elif sc["on"] == "virtual" and state.get("before_start"):
                out.bad("scheduled-dispose-not-on-scheduler", "%s: resource disposed before the scheduler ran" % desc)
            elif sc["on"] != "virtual" and any(n.startswith("w") or n == "main" for n in state["threads"]):
                out.bad("scheduled-dispose-not-on-scheduler", "%s: resource disposed on caller thread %s" % (desc, state["threads"]))
        if out.viol:
            w = dict(sc)
            w["cps"] = cps
            out.witness = w
        out.info = {"kind": "scheduled", "on": sc["on"], "cps": cps}
        return out

    def signature(self, sc, rule, msg):
        return {"rule": rule, "kind": sc.get("kind")}


PROP = Prop()
