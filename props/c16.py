"""C16 Rate-limiting operators follow their timing rules."""
from reactivex import operators as ops

from simlib import catalog, timemodels as tm, vt
from simlib.core import Outcome

FORMS = ["debounce", "throttle_with_timeout", "throttle_first", "throttle_with_mapper", "sample_period", "sample_sampler"]


def pick_fn(sc):
    pool = sc["pool"]
    return lambda v: pool[vt.h(v) % len(pool)]


class Prop:
    id = "C16"
    level = "exploration"
    engine = "VT"
    quick_runs = 100000
    thorough_runs = 2500000
    rule = ("one generated cold/hot/sync timeline (bursts, gaps equal to the due time, completion/error with a pending element) through "
            "debounce / throttle_with_timeout, throttle_first, throttle_with_mapper (throttle sources from a cold pool) and sample "
            "(period or sampler observable), on numeric and datetime virtual clocks; output (values, virtual times, terminal) compared "
            "with small event-driven interpreters of the four rules in the statement. Same-instant ties between a source event and an "
            "operator timer (e.g. an arrival exactly at the due time) are accepted under any resolution. Distinct = (form, args, output); "
            "non-trivial = at least two notifications.")
    assumptions = ["tie policy"]
    stubs = []

    def generate(self, rng, tier):
        form = rng.choice(FORMS)
        ctx = catalog.Ctx(rng, hot_p=0.45, falsy_p=0.25, sync_p=0.1)
        src = ctx.new_source(maxn=8)
        sc = {"clock": rng.choice(["test", "test", "historical"]), "form": form, "src": src, "d": rng.choice([10, 20, 30, 40, 60]), "sub_t": 205, "horizon": 1500}
        if form == "throttle_first":
            sc["d"] = rng.choice([5, 10, 20, 30, 60])
        if form == "throttle_with_mapper":
            sc["pool"] = [ctx.new_source("cold", prefix="p", maxn=2, positive_first=True) for _ in range(2)]
            for s_ in ctx.sources[-2:]:
                r = rng.random()
                if r < 0.15:
                    s_["kind"] = "sync"  # a throttle observable that fires (or ends) inside its own subscribe(): an open gate
                elif r < 0.3:
                    s_["kind"] = "syncthen"  # ... or fires there and again later (a BehaviorSubject as gate)
        if form == "sample_sampler":
            sc["sampler"] = ctx.new_source(rng.choice(["cold", "hot"]), prefix="p", maxn=6)
        sc["sources"] = ctx.sources
        sc["own_sched"] = rng.random() < 0.2
        off = rng.choice([None, None, None, 37, 123, 411])
        if off:
            sc["sub2_t"] = 205 + off
        from simlib import multi
        multi.gen_feedback(rng, sc, src, p=0.15)  # a consumer that answers an element by pushing a follow-up element into the (hot) source
        return sc

    def build(self, w, sc):
        f, d = sc["form"], sc["d"]
        s = w.sources[sc["src"]]
        if sc.get("own_sched") and f in ("debounce", "throttle_with_timeout", "throttle_first", "sample_period"):
            # the operator is bound to the world's scheduler explicitly and the pipeline is subscribed with another, parked one:
            # the operator's timers belong on the scheduler it was given
            from datetime import timedelta
            from reactivex import Observable
            from reactivex.scheduler import HistoricalScheduler
            op = {"debounce": lambda: ops.debounce(float(d), scheduler=w.s), "throttle_with_timeout": lambda: ops.throttle_with_timeout(d, scheduler=w.s),
                  "throttle_first": lambda: ops.throttle_first(float(d), scheduler=w.s), "sample_period": lambda: ops.sample(float(d), scheduler=w.s)}[f]()
            inner, other = s.pipe(op), HistoricalScheduler(vt.UTC0 + timedelta(seconds=5000))
            return Observable(lambda o, s_=None: inner.subscribe(o, scheduler=other))
        if f == "debounce":
            return s.pipe(ops.debounce(float(d)))
        if f == "throttle_with_timeout":
            return s.pipe(ops.throttle_with_timeout(d))
        if f == "throttle_first":
            return s.pipe(ops.throttle_first(float(d)))
        if f == "throttle_with_mapper":
            pick = pick_fn(sc)
            return s.pipe(ops.throttle_with_mapper(lambda v: w.sources[pick(v)]))
        if f == "sample_period":
            return s.pipe(ops.sample(float(d)))
        return s.pipe(ops.sample(w.sources[sc["sampler"]]))

    def model(self, eng, sc):
        f, d, sid = sc["form"], float(sc["d"]), sc["src"]
        if f in ("debounce", "throttle_with_timeout"):
            return tm.m_debounce(eng, sid, d)
        if f == "throttle_first":
            return tm.m_throttle_first(eng, sid, d)
        if f == "throttle_with_mapper":
            return tm.m_throttle_with_mapper(eng, sid, pick_fn(sc))
        if f == "sample_period":
            return tm.m_sample(eng, sid, period=d)
        return tm.m_sample(eng, sid, sampler=sc["sampler"])

    def execute(self, sc):
        out = Outcome()
        if sc["d"] <= 0:  # not a generated scenario (shrinker candidate): throttle_first rejects it by design
            out.digest = ("invalid",)
            return out
        desc = "form=%s d=%s clock=%s sources=%s" % (sc["form"], sc["d"], sc["clock"], [(s["id"], s["kind"], s["events"]) for s in sc["sources"]])
        out.probes["form:" + sc["form"]] += 1
        w, rec, wants = tm.compare(sc, self.build, self.model, out, desc)
        out.digest = (sc["form"], sc["d"], rec.kinds(), tuple(e[1] for e in rec.events))
        out.info = {"form": sc["form"], "d": sc["d"], "got": rec.kinds()}
        return out

    def signature(self, sc, rule, msg):
        return {"rule": rule, "form": sc.get("form")}


PROP = Prop()
