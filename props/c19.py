"""C19 Grouping routes each element to exactly one live group."""
from reactivex import operators as ops

from simlib import catalog, evmodel, models, timemodels as tm, vt
from simlib.core import Outcome
from props.c18 import MWin

FORMS = ["group_by", "group_by", "group_by_until", "group_by_until", "group_by_until_self", "partition", "partition_indexed"]


def key_of(sc):
    m = sc["m"]
    return lambda v: vt.h(v) % m


class Prop:
    id = "C19"
    level = "exploration"
    engine = "VT"
    quick_runs = 120000
    thorough_runs = 2500000
    rule = ("one generated cold/hot/sync timeline through group_by and group_by_until (key functions with 1-4 keys, optional element "
            "mapper, duration sources from a cold pool expiring groups at arbitrary later times, or derived from the group itself: expiry after k+1 of its elements) with every emitted group subscribed on "
            "receipt, and through partition / partition_indexed with both outputs subscribed; compared with an event-driven reference: a "
            "new group the first time a key is seen (or seen again after its group expired), every element delivered to exactly the live "
            "group of its key in arrival order, open groups ended with the source's terminal notification, each element to exactly one "
            "partition output. Same-instant ties between a source event and a duration source are accepted under any resolution. "
            "Distinct = (form, args, output); non-trivial = at least two groups or elements.")
    assumptions = ["tie policy", "partition sources have a positive first event time (its outputs share one subscription through publish/ref_count, so a synchronous source is consumed by the first output's subscriber)"]
    stubs = []

    def generate(self, rng, tier):
        if rng.random() < 0.05:
            # the consumer of the stream of groups feeds the source: on receipt of a new group it pushes one more element of the
            # same key into the (Subject) source, before the group's first element has been delivered
            return {"clock": "test", "form": "group_by_feedback", "m": rng.choice([1, 2, 3]), "until": rng.random() < 0.5,
                    "values": [rng.randrange(0, 9) for _ in range(rng.randrange(1, 6))], "sources": [], "sub_t": 205, "horizon": 400}
        form = rng.choice(FORMS)
        ctx = catalog.Ctx(rng, hot_p=0.45, falsy_p=0.3, sync_p=0.1)
        part = form.startswith("partition")
        src = ctx.new_source(kind=(rng.choice(["cold", "hot"]) if part else None), maxn=8, positive_first=part)
        sc = {"clock": rng.choice(["test", "test", "historical"]), "form": form, "src": src, "m": rng.choice([1, 2, 2, 3, 4]), "r": 0,
              "emap": rng.random() < 0.4, "sub_t": 205, "horizon": 1500}
        sc["r"] = rng.randrange(sc["m"])
        if form == "group_by_until":
            sc["pool"] = [ctx.new_source("cold", prefix="p", maxn=1, positive_first=True) for _ in range(2)]
        if form == "group_by_until_self":
            sc["k"] = rng.randrange(0, 3)  # a group expires on its own traffic: after k + 1 of its elements
        sc["sources"] = ctx.sources
        if not part and rng.random() < 0.3:
            sc["outer_take"] = rng.randrange(1, 4)  # the stream of groups is cut by take(k): the groups handed out so far live on
        off = rng.choice([None, None, None, 37, 123, 411])
        if off and not part:
            sc["sub2_t"] = 205 + off
        return sc

    def build(self, w, sc):
        f = sc["form"]
        s = w.sources[sc["src"]]
        key = key_of(sc)
        em = (lambda v: ("m", v)) if sc["emap"] else None
        cut = [ops.take(sc["outer_take"])] if sc.get("outer_take") else []
        if f == "group_by":
            return s.pipe(ops.group_by(key, em), *cut)
        if f == "group_by_until":
            pool = [w.sources[p] for p in sc["pool"]]
            return s.pipe(ops.group_by_until(key, em, lambda g: pool[g.key % len(pool)]), *cut)
        if f == "group_by_until_self":
            return s.pipe(ops.group_by_until(key, em, lambda g: g.pipe(ops.skip(sc["k"]))), *cut)
        m, r = sc["m"], sc["r"]
        if f == "partition":
            outs = s.pipe(ops.partition(lambda v: vt.h(v) % m == r))
        else:
            outs = s.pipe(ops.partition_indexed(lambda v, i: (vt.h(v) + i) % m == r))
        import reactivex as rx
        # both outputs, tagged, in one observable of observables so that the recorder follows them
        return rx.of(outs[0], outs[1])

    def model(self, eng, sc):
        f = sc["form"]
        sid = sc["src"]
        em = (lambda v: ("m", v)) if sc["emap"] else (lambda v: v)
        if f.startswith("partition"):
            a, b = MWin(eng.now), MWin(eng.now)
            eng.emit("N", a)
            eng.emit("N", b)
            # rx.of completes the outer right away; the outputs live on
            m, r = sc["m"], sc["r"]
            st = {"i": 0}
            real_emit = eng.out.append

            def on_next(v):
                ok = (vt.h(v) % m == r) if f == "partition" else ((vt.h(v) + st["i"]) % m == r)
                st["i"] += 1
                (a if ok else b).events.append((eng.now, "N", v))

            def term(k, v=None):
                a.events.append((eng.now, k, v))
                b.events.append((eng.now, k, v))

            eng.out.append((eng.now, "C", None))
            tm.single(eng, sid, on_next, lambda e: term("E", e), lambda: term("C"))
            return
        key = key_of(sc)
        groups = {}
        take = sc.get("outer_take")
        st = {"outer_done": False, "n": 0, "visible": set()}

        def stop_all():
            eng.done = True
            for s_ in eng.subs:
                s_.cancel()

        def emit_group(g):
            if st["outer_done"]:
                return  # nobody is listening for new groups any more; the group exists, unseen
            st["n"] += 1
            st["visible"].add(id(g))
            if take and st["n"] == take:
                eng.out.append((eng.now, "N", g))
                eng.out.append((eng.now, "C", None))  # take(k) completes; the groups handed out keep the source alive
                st["outer_done"] = True
            else:
                eng.emit("N", g)

        def group_gone(g):
            st["visible"].discard(id(g))
            if st["outer_done"] and not st["visible"]:
                stop_all()  # the last subscribed group is gone and the stream of groups was cut: the source is released

        def terminal(k, v=None):
            for g in list(groups.values()):
                g.events.append((eng.now, k, v))
            groups.clear()
            if st["outer_done"]:
                stop_all()
            else:
                eng.emit(k, v)

        def on_next(v):
            k = key(v)
            g = groups.get(k)
            if g is None:
                g = groups[k] = MWin(eng.now)
                emit_group(g)
                if f == "group_by_until":
                    holder = {}

                    def dh(k2, v2, g=g, k=k):
                        if k2 == "E":
                            terminal("E", v2)
                            return
                        if holder.get("s") is not None:
                            holder["s"].cancel()
                        if groups.get(k) is g:
                            del groups[k]
                            g.events.append((eng.now, "C", None))
                            group_gone(g)

                    holder["s"] = eng.subscribe(sc["pool"][k % len(sc["pool"])], dh)
                    if eng.done:
                        return
            if groups.get(k) is g:
                g.events.append((eng.now, "N", em(v)))
                if f == "group_by_until_self":
                    g.seen = getattr(g, "seen", 0) + 1
                    if g.seen == sc["k"] + 1:  # its duration observable (the group itself, minus k elements) fires
                        del groups[k]
                        g.events.append((eng.now, "C", None))
                        group_gone(g)

        tm.single(eng, sid, on_next, lambda e: terminal("E", e), lambda: terminal("C"))

    def exec_feedback(self, sc):
        import reactivex as rx
        from reactivex.subject import Subject
        out = Outcome()
        w = vt.World(sc["clock"])
        src = Subject()
        m = sc["m"]
        key = lambda v: v % m  # noqa: E731
        obs = src.pipe(ops.group_by_until(key, None, lambda g: rx.never()) if sc["until"] else ops.group_by(key))
        groups = []  # (key, [elements], [terminal])
        pushed = []
        state = {"E": None, "C": False}

        def push(v):
            pushed.append(v)
            src.on_next(v)

        def on_group(g):
            rec = (g.key, [], [])
            groups.append(rec)
            g.subscribe(rec[1].append, lambda e: rec[2].append("E"), lambda: rec[2].append("C"))
            push(g.key + m * (10 + len(groups)))  # same key, a value of its own

        w.at(sc["sub_t"], lambda: obs.subscribe(on_group, lambda e: state.__setitem__("E", e), lambda: state.__setitem__("C", True)))
        for i, v in enumerate(sc["values"]):
            w.at(sc["sub_t"] + 10 * (i + 1), (lambda v=v: push(v)))
        w.at(sc["sub_t"] + 10 * (len(sc["values"]) + 2), src.on_completed)
        w.run(sc["horizon"])
        out.digest = ("feedback", m, sc["until"], tuple(sc["values"]), tuple((k, tuple(sorted(e))) for k, e, _ in groups))
        out.sim_time = sc["horizon"]
        out.nontrivial = len(groups) >= 1
        out.probes["form:group_by_feedback"] += 1
        desc = "group_by%s with a consumer that feeds the source (keys=%d values=%s)" % ("_until" if sc["until"] else "", m, sc["values"])
        if w.escaped:
            out.bad("escaped", "%s: %r" % (desc, w.escaped[0][2:]))
        keys = [k for k, _, _ in groups]
        if len(keys) != len(set(keys)):
            out.bad("model-mismatch", "%s: groups were announced for keys %s - a key that is already live got a second group" % (desc, keys))
        for k, els, term in groups:
            want = sorted(v for v in pushed if key(v) == k)
            if sorted(els) != want and not out.viol:
                out.bad("model-mismatch", "%s: the group of key %s received %s, the elements of that key are %s" % (desc, k, els, want))
            if term != ["C"] and not out.viol:
                out.bad("model-mismatch", "%s: the group of key %s ended with %s, the source completed" % (desc, k, term))
        if not state["C"] and not out.viol:
            out.bad("model-mismatch", "%s: the stream of groups did not complete" % desc)
        return out

    def execute(self, sc):
        if sc["form"] == "group_by_feedback":
            return self.exec_feedback(sc)
        out = Outcome()
        desc = "form=%s keys=%s emap=%s sources=%s" % (sc["form"], sc["m"], sc["emap"], [(s["id"], s["kind"], s["events"]) for s in sc["sources"]])
        out.probes["form:" + sc["form"]] += 1

        def want_fn(eng):
            res = []
            for t, k, v in eng.out:
                if k == "N" and isinstance(v, MWin):
                    res.append((float(t), "N", ("inner", tuple(models.norm(v.events)))))
                elif k == "N":
                    res.append((float(t), "N", vt.vkey(v)))
                elif k == "E":
                    res.append((float(t), "E", models.ekey(v)))
                else:
                    res.append((float(t), "C", None))
            return res

        w, rec, wants = tm.compare(sc, self.build, self.model, out, desc, got_fn=lambda rec: rec.timed(), want_fn=want_fn, follow=True)
        for r in rec.all_recorders():
            g = vt.grammar_violation(r)
            if g:
                out.bad("grammar", "%s: %s" % (desc, g))
        out.nontrivial = len(rec.children) >= 2 or sum(len(c.events) for c in rec.children) >= 2
        out.digest = (sc["form"], sc["m"], sc["emap"], repr(rec.timed())[:300])
        out.info = {"form": sc["form"], "groups": len(rec.children)}
        return out

    def signature(self, sc, rule, msg):
        return {"rule": rule, "form": sc.get("form")}


PROP = Prop()
