"""C12 Switching forwards only the latest inner sequence."""
from reactivex import operators as ops

from simlib import catalog, evmodel, multi, vt
from simlib.core import Outcome

FORMS = ["switch_latest", "switch_map", "switch_map_indexed", "flat_map_latest"]


def pick_fn(sc):
    inners = sc["inners"]
    if sc["form"] == "switch_map_indexed":
        return lambda v, i: inners[(vt.h(v) + i) % len(inners)]
    return lambda v, i: inners[vt.h(v) % len(inners)]


class Prop:
    id = "C12"
    level = "exploration"
    engine = "VT"
    quick_runs = 100000
    thorough_runs = 2000000
    rule = ("outer timelines (0-5 elements) selecting among 2-3 inner cold/hot/sync sources with overlapping lifetimes through "
            "switch_latest, switch_map, switch_map_indexed and flat_map_latest (errors in stale and current inners, outer completion "
            "before/after the latest inner); output and every source's subscription intervals are compared with an event-driven "
            "reference (the previous inner must also have been unsubscribed - or have terminated - before the next one is subscribed, in that "
            "order within one instant); reference: an inner element is forwarded only while its inner is the latest, the previous inner is unsubscribed when the "
            "next arrives, completion only after the outer and the latest inner completed. Scenarios with a same-instant tie between two "
            "sources are only checked for the grammar. One hot outer in five has a consumer that answers an element by pushing the next inner into the outer from inside its handler (the switch then happens while the current inner is still delivering, possibly inside its own subscribe()). Distinct = (form, output); non-trivial = two notifications and two inner "
            "subscriptions.")
    assumptions = ["tie policy for same-instant events of different sources"]
    stubs = []

    def generate(self, rng, tier):
        form = rng.choice(FORMS)
        ctx = catalog.Ctx(rng, hot_p=0.3, falsy_p=0.25, sync_p=0.15)
        outer = ctx.new_source(maxn=5)
        inners = [ctx.new_source(prefix="p", maxn=4) for _ in range(rng.choice([1, 2, 3]))]
        sc = {"clock": rng.choice(["test", "test", "historical"]), "form": form, "a": {}, "outer": outer, "inners": inners,
              "sources": ctx.sources, "sub_t": 205, "horizon": 3500}
        off = rng.choice([None, None, None, 37, 123, 411])
        if off:
            sc["sub2_t"] = 205 + off
        multi.gen_feedback(rng, sc, outer, p=0.2)  # a consumer that answers an element by pushing the next inner into the (hot) outer
        return sc

    def build(self, w, sc):
        f = sc["form"]
        o = w.sources[sc["outer"]]
        pick = pick_fn(sc)
        sel = lambda v: w.sources[pick(v, 0)]  # noqa: E731
        if f == "switch_latest":
            return o.pipe(ops.map(sel), ops.switch_latest())
        if f == "switch_map":
            return o.pipe(ops.switch_map(sel))
        if f == "switch_map_indexed":
            return o.pipe(ops.switch_map_indexed(lambda v, i: w.sources[pick(v, i)]))
        return o.pipe(ops.flat_map_latest(sel))

    def model(self, eng, sc):
        return evmodel.switch_model(eng, sc["outer"], pick_fn(sc))

    def execute(self, sc):
        out = Outcome()
        desc = "form=%s sources=%s" % (sc["form"], [(s["id"], s["kind"], s["events"]) for s in sc["sources"]])
        r = multi.compare(sc, self.build, self.model, out, desc, drop_empty=True)
        out.probes["form:" + sc["form"]] += 1
        if r is None:
            return out
        w, rec, eng = r
        out.digest = (sc["form"], tuple(repr(e) for e in eng.out[:10]))
        nsubs = sum(len(w.sources[s].subs) for s in sc["inners"])
        if sc.get("feedback"):
            out.probes["feedback_consumer"] += 1
        if sc.get("sub2_t") is None and not out.viol and not sc.get("feedback"):  # (an inner that is switched away from inside its own subscribe() cannot have been unsubscribed yet)
            # "unsubscribe the previous inner as soon as a new inner arrives": when an inner is subscribed, the one before it has
            # been let go (unsubscribed, or it had terminated) - in this order, also within one virtual instant
            subs = sorted((x for s in set(sc["inners"]) for x in w.sources[s].subs), key=lambda x: x.sub_seq)
            for p_, n_ in zip(subs, subs[1:]):
                closed = (p_.disp_seq is not None and p_.disp_seq < n_.sub_seq) or (p_.term_seq is not None and p_.term_seq < n_.sub_seq)
                if not closed:
                    out.bad("previous-inner-still-subscribed", "%s: an inner sequence was subscribed at t=%s while the previous one (subscribed at t=%s) had not been unsubscribed yet" % (desc, n_.sub_t, p_.sub_t))
                    break
            out.probes["switch_order_checked"] += 1
        out.nontrivial = out.nontrivial and nsubs >= 2
        out.info = {"form": sc["form"], "output": [list(map(str, e)) for e in eng.out[:6]]}
        return out

    def signature(self, sc, rule, msg):
        return {"rule": rule, "form": sc.get("form")}


PROP = Prop()
