"""C07 Slicing an observable behaves like slicing a list."""
from simlib import catalog, chain, models, vt
from simlib.core import Outcome

import reactivex.operators as ops


class Prop:
    id = "C07"
    level = "exploration"
    engine = "VT"
    quick_runs = 300000
    thorough_runs = 4000000
    rule = ("seeded (start, stop in {None,-9..9}, step in {None,1..8}, form in {ops.slice, source[a:b:c], source[i]}) over one generated "
            "timeline of 0-7 elements (cold/hot/sync; completion, error at any position, or no terminal); emitted values and terminal "
            "compared with list(source)[start:stop:step]; optionally the same sliced observable is subscribed a second time. Distinct = (form, start, stop, step, length, terminal, observed); non-trivial = the "
            "expected slice is non-empty or the source errors.")
    assumptions = ["essentially a pure function of the input; the simulated dimensions are the error position, the missing terminal and the source kind",
                   "an error is required to pass through unless the slice was already complete (non-negative start and stop, stop elements seen)"]
    stubs = []

    def generate(self, rng, tier):
        ctx = catalog.Ctx(rng, hot_p=0.4, falsy_p=0.2, sync_p=0.3)
        ctx.new_source(maxn=7)
        spec = ctx.sources[0]
        if rng.random() < 0.7:  # unique attributable values
            i = 0
            for e in spec["events"]:
                if e[1] == "N":
                    e[2] = i
                    i += 1
        rnd = lambda: rng.choice([None, None] + list(range(-9, 10)))  # noqa: E731
        form = rng.choice(["ops", "getitem", "getitem", "index"])
        sc = {"clock": "test", "sources": ctx.sources, "form": form, "start": rnd(), "stop": rnd(),
              "step": rng.choice([None, 1, 1, 2, 3, 4, 8]), "sub_t": 205, "horizon": 1200}
        if form == "index":
            sc["start"] = rng.randrange(-9, 10)
        off = rng.choice([None, None, None, 37, 123, 411])
        if off:
            sc["sub2_t"] = 205 + off  # the same sliced observable is subscribed a second time
        return sc

    def execute(self, sc):
        out = Outcome()
        w = vt.World(sc["clock"])
        vt.make_sources(w, sc["sources"])
        spec = sc["sources"][0]
        src = w.sources[spec["id"]]
        a, b, c = sc["start"], sc["stop"], sc["step"]
        if sc["form"] == "ops":
            obs = src.pipe(ops.slice(a, b, c))
        elif sc["form"] == "getitem":
            obs = src[a:b:c]
        else:
            a = 0 if a is None else a
            obs = src[a]
            b, c = a + 1, 1
        times = [sc["sub_t"]] + ([sc["sub2_t"]] if sc.get("sub2_t") is not None else [])
        recs = [vt.Recorder(w, "r%d" % i, follow=False) for i in range(len(times))]
        for r_, t_ in zip(recs, times):
            w.at(t_, (lambda r_=r_: r_.subscribe(obs)))
        w.run(sc["horizon"])
        if w.escaped:
            out.bad("escaped", repr(w.escaped[0][2:]))
        for i, (rec, t0) in enumerate(zip(recs, times)):
            self.judge(sc, out, spec, rec, t0, a, b, c, "" if i == 0 else " [second subscription of the same observable at t=%s]" % t0, i == 0)
            if out.viol:
                break
        if a is not None and a < 0 and b is not None and b >= 0:
            out.probes["neg_start_nonneg_stop"] += 1
        return out

    def judge(self, sc, out, spec, rec, t0, a, b, c, tag, first):
        evs = chain.visible(spec, t0)
        els, term = models.split(evs)
        vals = [v for _, v in els]
        got = models.norm(rec.events_kv())
        gvals = [g[2] for g in got if g[1] == "N"]
        gterm = [g for g in got if g[1] in "CE"]
        if first:
            out.digest = (sc["form"], a, b, c, len(vals), term[1] if term else None, tuple(got), sc.get("sub2_t"))
            out.sim_time = sc["horizon"]
        else:
            out.probes["second_subscription_checked"] += 1
        g = vt.grammar_violation(rec)
        if g:
            out.bad("grammar", g + tag)
        want = [vt.vkey(v) for v in vals[a:b:c]]
        if first:
            out.nontrivial = bool(want) or bool(term and term[1] == "E")
        nonneg = (a is None or a >= 0) and (b is None or b >= 0)
        decided = (b == 0) or (nonneg and b is not None and len(vals) >= b)  # slice complete after `stop` elements
        desc = "form=%s [%r:%r:%r] over %s terminal=%s%s" % (sc["form"], sc["start"], sc["stop"], sc["step"], vals, term[1] if term else None, tag)
        if term and term[1] == "C":
            out.probes["completed"] += 1
            if gvals != want or not gterm or gterm[0][1] != "C":
                out.bad("slice-mismatch", "%s expected=%s then C got=%s" % (desc, want, got))
        else:
            out.probes["error" if term else "no_terminal"] += 1
            if decided:
                if gvals != want or not gterm or gterm[0][1] != "C":
                    out.bad("slice-mismatch", "%s (slice already complete) expected=%s then C got=%s" % (desc, want, got))
            else:
                if term and (not gterm or gterm[0][1] != "E" or gterm[0][2] != models.ekey(term[2])):
                    out.bad("error-not-passed", "%s expected the source error, got=%s" % (desc, got))
                if not term and gterm:
                    out.bad("spurious-terminal", "%s got=%s" % (desc, got))
                if a is None or a >= 0:
                    stream = [vt.vkey(v) for v in vals[a:(b if (b is None or b >= 0) else None):c]]
                    if gvals != stream[:len(gvals)]:
                        out.bad("slice-mismatch", "%s emitted %s which is not a prefix of %s" % (desc, gvals, stream))
                elif gvals:
                    out.bad("slice-mismatch", "%s emitted %s before the end-relative start could be known" % (desc, gvals))

    def signature(self, sc, rule, msg):
        a, b = sc.get("start"), sc.get("stop")
        return {"rule": rule, "neg_start": a is not None and a < 0, "nonneg_stop": b is not None and b >= 0}


PROP = Prop()
