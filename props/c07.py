"""C07 Slicing an observable behaves like slicing a list."""
from simlib import catalog, chain, models, vt
from simlib.core import Outcome

import reactivex.operators as ops


class Prop:
    id = "C07"
    level = "exploration"
    engine = "VT"
    quick_runs = 300000
    thorough_runs = 4000000
    rule = ("seeded (start, stop in {None,-9..9}, step in {None,1..8}, form in {ops.slice, source[a:b:c], source[i]}) over one generated "
            "timeline of 0-7 elements (cold/hot/sync; completion, error at any position, or no terminal); emitted values and terminal "
            "compared with list(source)[start:stop:step]; optionally the same sliced observable is subscribed a second time; 6% of the runs slice a Subject whose subscriber hands it the next value from inside "
            "every on_next (re-entrant emission). Distinct = (form, start, stop, step, length, terminal, observed); non-trivial = the "
            "expected slice is non-empty or the source errors.")
    assumptions = ["essentially a pure function of the input; the simulated dimensions are the error position, the missing terminal and the source kind",
                   "an error is required to pass through unless the slice was already complete (non-negative start and stop, stop elements seen)"]
    stubs = []

    def generate(self, rng, tier):
        if rng.random() < 0.06:
            # the subscriber hands the next value to the sliced Subject from inside every on_next it receives
            rnd2 = lambda: rng.choice([None, None] + list(range(-3, 8)))  # noqa: E731
            form = rng.choice(["ops", "getitem", "getitem", "index"])
            sc = {"clock": "test", "sources": [], "form": form, "start": rnd2(), "stop": rnd2(), "step": rng.choice([None, 1, 1, 2, 3]),
                  "feedback": list(range(rng.randrange(1, 9))), "sub_t": 205, "horizon": 600}
            if form == "index":
                sc["start"] = rng.randrange(-3, 8)
            return sc
        ctx = catalog.Ctx(rng, hot_p=0.4, falsy_p=0.2, sync_p=0.3)
        ctx.new_source(maxn=7)
        spec = ctx.sources[0]
        if rng.random() < 0.7:  # unique attributable values
            i = 0
            for e in spec["events"]:
                if e[1] == "N":
                    e[2] = i
                    i += 1
        rnd = lambda: rng.choice([None, None] + list(range(-9, 10)))  # noqa: E731
        form = rng.choice(["ops", "getitem", "getitem", "index"])
        sc = {"clock": "test", "sources": ctx.sources, "form": form, "start": rnd(), "stop": rnd(),
              "step": rng.choice([None, 1, 1, 2, 3, 4, 8]), "sub_t": 205, "horizon": 1200}
        if form == "index":
            sc["start"] = rng.randrange(-9, 10)
        off = rng.choice([None, None, None, 37, 123, 411])
        if off:
            sc["sub2_t"] = 205 + off  # the same sliced observable is subscribed a second time
        return sc

    def execute_feedback(self, sc):
        from reactivex.subject import Subject
        out = Outcome()
        w = vt.World(sc["clock"])
        src = Subject()
        a, b, c = sc["start"], sc["stop"], sc["step"]
        if sc["form"] == "ops":
            obs = src.pipe(ops.slice(a, b, c))
        elif sc["form"] == "getitem":
            obs = src[a:b:c]
        else:
            a = 0 if a is None else a
            obs = src[a]
            b, c = a + 1, 1
        vals = sc["feedback"]
        rec = vt.Recorder(w, "r", follow=False)
        sent = [0]

        closed = [False]

        def feed(_v=None):
            if sent[0] < len(vals) and not closed[0]:
                sent[0] += 1
                src.on_next(vals[sent[0] - 1])

        def complete():
            closed[0] = True
            src.on_completed()

        rec.on_each = feed
        T = sc["sub_t"] + 10
        w.at(sc["sub_t"], lambda: rec.subscribe(obs))
        w.at(T, feed)
        w.at(T + 10, complete)
        w.run(sc["horizon"])
        # what reaches the subscriber before the completion is what the slice has decided by then: only slices with non-negative
        # start and stop emit before the end; every element that arrives makes the subscriber hand over one more value
        early = (a is None or a >= 0) and (b is None or b >= 0)
        k = 1 if vals else 0
        for _ in range(len(vals) + 2):
            k2 = min(len(vals), 1 + (len(vals[:k][a:b:c]) if early else 0)) if vals else 0
            if k2 == k:
                break
            k = k2
        want = [vt.vkey(v) for v in vals[:k][a:b:c]]
        got = models.norm(rec.events_kv())
        gvals = [g[2] for g in got if g[1] == "N"]
        out.digest = ("feedback", sc["form"], a, b, c, len(vals), tuple(got))
        out.sim_time = sc["horizon"]
        out.nontrivial = bool(want)
        out.probes["feedback_mode"] += 1
        g = vt.grammar_violation(rec)
        if g:
            out.bad("grammar", g)
        if w.escaped:
            out.bad("escaped", repr(w.escaped[0][2:]))
        desc = "feedback form=%s [%r:%r:%r] values=%s" % (sc["form"], sc["start"], sc["stop"], sc["step"], vals)
        if sent[0] != k or gvals != want or [g_[1] for g_ in got if g_[1] in "CE"] != ["C"]:
            out.bad("slice-mismatch", "%s: the subscriber handed over %d values and received %s; list slicing says %d values and %s then C" % (desc, sent[0], got, k, want))
        return out

    def execute(self, sc):
        if "feedback" in sc:
            return self.execute_feedback(sc)
        out = Outcome()
        w = vt.World(sc["clock"])
        vt.make_sources(w, sc["sources"])
        spec = sc["sources"][0]
        src = w.sources[spec["id"]]
        a, b, c = sc["start"], sc["stop"], sc["step"]
        if sc["form"] == "ops":
            obs = src.pipe(ops.slice(a, b, c))
        elif sc["form"] == "getitem":
            obs = src[a:b:c]
        else:
            a = 0 if a is None else a
            obs = src[a]
            b, c = a + 1, 1
        times = [sc["sub_t"]] + ([sc["sub2_t"]] if sc.get("sub2_t") is not None else [])
        recs = [vt.Recorder(w, "r%d" % i, follow=False) for i in range(len(times))]
        for r_, t_ in zip(recs, times):
            w.at(t_, (lambda r_=r_: r_.subscribe(obs)))
        w.run(sc["horizon"])
        if w.escaped:
            out.bad("escaped", repr(w.escaped[0][2:]))
        for i, (rec, t0) in enumerate(zip(recs, times)):
            self.judge(sc, out, spec, rec, t0, a, b, c, "" if i == 0 else " [second subscription of the same observable at t=%s]" % t0, i == 0)
            if out.viol:
                break
        if a is not None and a < 0 and b is not None and b >= 0:
            out.probes["neg_start_nonneg_stop"] += 1
        return out

    def judge(self, sc, out, spec, rec, t0, a, b, c, tag, first):
        evs = chain.visible(spec, t0)
        els, term = models.split(evs)
        vals = [v for _, v in els]
        got = models.norm(rec.events_kv())
        gvals = [g[2] for g in got if g[1] == "N"]
        gterm = [g for g in got if g[1] in "CE"]
        if first:
            out.digest = (sc["form"], a, b, c, len(vals), term[1] if term else None, tuple(got), sc.get("sub2_t"))
            out.sim_time = sc["horizon"]
        else:
            out.probes["second_subscription_checked"] += 1
        g = vt.grammar_violation(rec)
        if g:
            out.bad("grammar", g + tag)
        want = [vt.vkey(v) for v in vals[a:b:c]]
        if first:
            out.nontrivial = bool(want) or bool(term and term[1] == "E")
        nonneg = (a is None or a >= 0) and (b is None or b >= 0)
        decided = (b == 0) or (nonneg and b is not None and len(vals) >= b)  # slice complete after `stop` elements
        desc = "form=%s [%r:%r:%r] over %s terminal=%s%s" % (sc["form"], sc["start"], sc["stop"], sc["step"], vals, term[1] if term else None, tag)
        if term and term[1] == "C":
            out.probes["completed"] += 1
            if gvals != want or not gterm or gterm[0][1] != "C":
                out.bad("slice-mismatch", "%s expected=%s then C got=%s" % (desc, want, got))
        else:
            out.probes["error" if term else "no_terminal"] += 1
            if decided:
                if gvals != want or not gterm or gterm[0][1] != "C":
                    out.bad("slice-mismatch", "%s (slice already complete) expected=%s then C got=%s" % (desc, want, got))
            else:
                if term and (not gterm or gterm[0][1] != "E" or gterm[0][2] != models.ekey(term[2])):
                    out.bad("error-not-passed", "%s expected the source error, got=%s" % (desc, got))
                if not term and gterm:
                    out.bad("spurious-terminal", "%s got=%s" % (desc, got))
                if a is None or a >= 0:
                    stream = [vt.vkey(v) for v in vals[a:(b if (b is None or b >= 0) else None):c]]
                    if gvals != stream[:len(gvals)]:
                        out.bad("slice-mismatch", "%s emitted %s which is not a prefix of %s" % (desc, gvals, stream))
                elif gvals:
                    out.bad("slice-mismatch", "%s emitted %s before the end-relative start could be known" % (desc, gvals))

    def signature(self, sc, rule, msg):
        a, b = sc.get("start"), sc.get("stop")
        return {"rule": rule, "neg_start": a is not None and a < 0, "nonneg_stop": b is not None and b >= 0}


PROP = Prop()
