"""C24 Multicasting shares one source subscription per connection."""
import reactivex as rx
from reactivex import operators as ops
from reactivex.subject import Subject

from simlib import subjects, vt
from simlib.core import Outcome

MANUAL = ["publish", "replay", "publish_value", "multicast_subject"]
REFCOUNT = ["share", "publish_ref_count", "replay_ref_count", "publish_value_ref_count"]
MAPPER = ["publish_mapper", "multicast_mapper", "replay_mapper", "publish_value_mapper"]


class _Timed:
    """Mixin: stamps deliveries with the model clock and reports nested subscriptions."""

    nested_sub = None  # called when a subscriber subscribes another one from inside a notification

    nested_connect = None  # called when a subscriber calls connect() from inside a notification

    def apply(self, op, reentrant_from=None):
        if op[0] == "connect":
            if self.nested_connect is not None:
                self.nested_connect()
            return None
        if op[0] == "sub" and reentrant_from is not None and self.nested_sub is not None:
            self.nested_sub()
        return super().apply(op, reentrant_from)

    def _log(self, oid, kind, value, optional=False):
        self.tlog.setdefault(oid, []).append((self.now, kind, value, optional))
        super()._log(oid, kind, value, optional)


class TimedModel(_Timed, subjects.SeqModel):
    pass


class TimedReplayModel(_Timed, subjects.ReplayModel):
    """replay forms: deliveries go through the per-subscriber FIFOs (subjects.ReplayModel)"""


def subject_kind(form):
    if form.startswith("replay"):
        return "replay"
    if form.startswith("publish_value"):
        return "behavior"
    return "plain"


def source_events(spec, t_connect):
    """[(t, kind, value)] a connection opened at t_connect receives (absolute times)."""
    out = []
    for e in spec["events"]:
        t, k = e[0], e[1]
        v = e[2] if len(e) > 2 else None
        if spec["kind"] == "hot":
            if t < t_connect:
                continue
            at = t
        elif spec["kind"] == "cold":
            at = t_connect + t
        else:
            at = t_connect
        out.append((at, k, v))
        if k in "CE":
            break
    if spec["kind"] != "sync":
        out.sort(key=lambda e: e[0])
    return out


class Prop:
    id = "C24"
    level = "exploration"
    engine = "VT"
    quick_runs = 100000
    thorough_runs = 2000000
    rule = ("seeded histories of subscribe/unsubscribe/connect/disconnect calls at virtual instants chosen so that no call ties with a source "
            "event, over cold, hot and synchronous sources, for publish, replay(buffer_size, window), publish_value, multicast(subject), "
            "share, publish/replay/publish_value + ref_count, auto_connect(0..3) and the mapper forms (publish/replay/publish_value/"
            "multicast with a mapper that zips the multicasted source with itself). Compared with a reference: source subscription intervals "
            "(one per connection, opened at connect / first subscriber, closed at disconnect / last unsubscribe / source terminal) and "
            "per-subscriber (time, notification) logs produced by feeding the connection's events into the C20-C22 subject models. "
            "After the source terminated only the at-most-one-live-subscription invariant and the grammar are checked; auto_connect's "
            "connection instant is enveloped. Distinct = (form, args, op kinds, logs); non-trivial = a subscriber received a notification "
            "and the history has at least 3 calls.")
    assumptions = ["reconnect behaviour after the source terminated is not stated and not checked",
                   "auto_connect(n): connection no earlier than the n-th arrival, no later than the moment n subscribers are subscribed at once, never twice while live"]
    stubs = []

    # ------------------------------------------------------------ generation
    def generate(self, rng, tier):
        form = rng.choice(MANUAL + REFCOUNT + MAPPER + ["auto_connect"] * 2)
        kind = rng.choice(["cold", "cold", "hot", "hot", "sync"])
        n = rng.randrange(0, 6)
        ts = sorted(rng.choice(range(0, 300, 10)) for _ in range(n))
        if kind == "hot":
            ev = [[150 + t, "N", vt.gen_value(rng, 0.3)] for t in ts]
            last = 150 + (ts[-1] if ts else 0)
        else:
            ev = [[(t + 1 if t else rng.choice([0, 1])), "N", vt.gen_value(rng, 0.3)] for t in ts]
            last = (ts[-1] + 1 if ts else 1)
        term = rng.choice("CCEXX")
        if term != "X":
            ev.append([last + rng.choice([0, 20, 100]), term] + ([{"err": "x"}] if term == "E" else []))
        a = {}
        if form.startswith("replay"):
            a = {"buffer_size": rng.choice([None, None, 0, 1, 2]), "window": rng.choice([None, None, 20, 50])}
        if form.startswith("publish_value"):
            a = {"initial": vt.gen_value(rng, 0.5)}
        if form == "auto_connect":
            a = {"n": rng.randrange(0, 4), "base": rng.choice(["publish", "replay", "publish_value"]), "buffer_size": rng.choice([None, 1]), "window": None,
                 "initial": vt.gen_value(rng, 0.5)}
        hist = []
        oid = 0
        live = []
        t = 100
        for _ in range(rng.randrange(2, 9)):
            t += rng.choice([0, 10, 10, 20, 50, 100])
            r = rng.random()
            if r < 0.45 or not live:
                hist.append([t + 3, "sub", oid])
                live.append(oid)
                oid += 1
            elif r < 0.65:
                x = rng.choice(live)
                live.remove(x)
                hist.append([t + 7, "unsub", x])
            elif form in MANUAL:
                hist.append([t + 5, "connect"] if rng.random() < 0.65 else [t + 7, "disconnect"])
            else:
                hist.append([t + 3, "sub", oid])
                live.append(oid)
                oid += 1
        if form in MANUAL and not any(h[1] == "connect" for h in hist):
            hist.insert(rng.randrange(len(hist) + 1), [95 + 10 * rng.randrange(0, 30), "connect"])
        hist.sort(key=lambda h: h[0])
        sc = {"clock": "test", "sources": [{"id": "s0", "kind": kind, "events": ev}], "form": form, "a": a, "ops": hist, "horizon": 1500}
        if form in MANUAL + REFCOUNT and rng.random() < 0.25:
            # a subscriber that, from inside its k-th notification, subscribes one more observer to the same shared observable
            subs = [h[2] for h in hist if h[1] == "sub"]
            o = rng.choice(subs)
            if form in MANUAL and rng.random() < 0.4:
                # ... or that calls connect() again ("make sure it is connected") from inside its k-th notification
                sc["scripts"] = {str(o): {"k": rng.randrange(0, 3), "do": ["connect"]}}
            else:
                sc["scripts"] = {str(o): {"k": rng.randrange(0, 3), "do": ["sub", 100 + o, True]}}
            if kind == "cold" and subject_kind(a.get("base", form)) == "replay":
                # a cold event at relative time 0 would be queued in the scheduler between the replay deliveries of the
                # connecting subscriber and those of later subscribers of the same instant: keep it off the connection instant
                for e in ev:
                    if e[0] == 0:
                        e[0] = 1
        return sc

    # ------------------------------------------------------------ real
    def build(self, w, sc):
        src = w.sources["s0"]
        f, a = sc["form"], sc["a"]
        twice = lambda x: rx.zip(x, x)  # noqa: E731  (uses the multicasted source twice, subscribing synchronously)
        base = a.get("base", f)
        if base.startswith("replay"):
            op = ops.replay(buffer_size=a.get("buffer_size"), window=a.get("window"), scheduler=w.s)
        elif base.startswith("publish_value"):
            op = ops.publish_value(vt.dec(a.get("initial")))
        elif base == "multicast_subject":
            op = ops.multicast(Subject())
        else:
            op = ops.publish()
        if f in MANUAL:
            return src.pipe(op)
        if f == "share":
            return src.pipe(ops.share())
        if f in REFCOUNT:
            return src.pipe(op, ops.ref_count())
        if f == "auto_connect":
            return src.pipe(op).auto_connect(a["n"])
        if f == "publish_mapper":
            return src.pipe(ops.publish(twice))
        if f == "multicast_mapper":
            return src.pipe(ops.multicast(subject_factory=lambda s: Subject(), mapper=twice))
        if f == "replay_mapper":
            return src.pipe(ops.replay(mapper=twice, buffer_size=a.get("buffer_size"), window=a.get("window"), scheduler=w.s))
        if f == "publish_value_mapper":
            return src.pipe(ops.publish_value(vt.dec(a.get("initial")), twice))
        raise ValueError(f)

    def run_real(self, sc):
        w = vt.World(sc["clock"])
        vt.make_sources(w, sc["sources"])
        holder = {}
        holder["obs"] = self.build(w, sc)
        recs = {}
        conn = []
        for t, name, *rest in sc["ops"]:
            if name == "sub":
                r = recs[rest[0]] = vt.Recorder(w, "o%d" % rest[0], follow=False)
                script = (sc.get("scripts") or {}).get(str(rest[0]))
                if script and script["do"][0] == "connect":
                    r.script = (script["k"], (lambda: conn.append(holder["obs"].connect(w.s))))
                elif script:
                    def nested(new=script["do"][1]):
                        r2 = recs[new] = vt.Recorder(w, "o%d" % new, follow=False)
                        r2.subscribe(holder["obs"])
                    r.script = (script["k"], nested)
                w.at(t, (lambda r=r: r.subscribe(holder["obs"])))
            elif name == "unsub":
                w.at(t, (lambda o=rest[0]: recs[o].dispose() if o in recs else None))
            elif name == "connect":
                w.at(t, (lambda: conn.append(holder["obs"].connect(w.s))))
            elif name == "disconnect":
                w.at(t, (lambda: conn[-1].dispose() if conn and conn[-1] is not None else None))
        w.run(sc["horizon"])
        return w, recs

    # ------------------------------------------------------------ reference
    def run_model(self, sc, connects=None):
        """Feed the history into the subject model.  Returns (per observer timed log, expected source
        subscription intervals, truncation time = instant the source terminal reached the subject)."""
        f = sc["form"]
        spec = sc["sources"][0]
        a = sc["a"]
        base = a.get("base", f)
        cfg = {"buffer_size": a.get("buffer_size"), "window": a.get("window"), "initial": a.get("initial")}
        m = (TimedReplayModel if subject_kind(base) == "replay" else TimedModel)(subject_kind(base), cfg, sc.get("scripts") or {})
        m.tlog = {}
        m.auto_drain = False  # replay: queued deliveries run when the scheduler gets its turn, after everything already queued for the instant

        def at(t):
            if t != m.now and hasattr(m, "flush"):
                m.flush()
            m.now = t

        refcount = f in REFCOUNT
        timeline = []
        nsubs = 0
        pend = list(connects or [])  # [(t, number of subscribe calls made before the connection)]
        for t, name, *rest in sc["ops"]:
            while pend and pend[0][1] <= nsubs and pend[0][0] <= t:
                timeline.append((pend[0][0], 1, ["connect"]))
                pend.pop(0)
            timeline.append((t, 1, [name] + rest))
            if name == "sub":
                nsubs += 1
        timeline += [(t, 1, ["connect"]) for t, _ in pend]
        intervals = []
        pending = []  # source events of the live connection
        connected = False
        count = 0
        t_end = None

        def nested_sub():
            nonlocal count
            count += 1

        m.nested_sub = nested_sub
        m.nested_connect = lambda: connect(m.now) if t_end is None else None  # (after the source terminated nothing is stated about connect())

        def connect(t):
            nonlocal connected, pending
            if connected:
                return
            connected = True
            intervals.append([t, None])
            pending = source_events(spec, t)
            if spec["kind"] == "sync":
                feed(t)  # synchronous events arrive inside connect(); a cold event at relative 0 is a later action of the instant

        def disconnect(t):
            nonlocal connected, pending
            if connected:
                connected = False
                pending = []
                intervals[-1][1] = t

        def feed(upto):
            nonlocal pending, connected, t_end
            while pending and pending[0][0] <= upto and t_end is None:
                t, k, v = pending.pop(0)
                at(t)
                if k == "N":
                    m.apply(["next", v])
                else:
                    m.apply(["completed"] if k == "C" else ["error", v["err"] if isinstance(v, dict) else v])
                    intervals[-1][1] = t
                    connected = False
                    pending = []
                    t_end = t

        for t, _, op in timeline:
            for _ in range(4):
                feed(t - 0.5)
                if t_end is not None or not hasattr(m, "flush") or t == m.now:
                    break
                m.flush()  # the queued deliveries of the instant we are leaving; one of them may call connect() and bring earlier events
                if not (pending and pending[0][0] <= t - 0.5):
                    break
            if t_end is not None:
                break
            at(t)
            if op[0] == "sub":
                count += 1
                first = count == 1  # decided before the subscriber is attached: it may subscribe others from its first notification
                m.apply(["sub", op[1], True])
                if refcount and first:
                    connect(t)
            elif op[0] == "unsub":
                if op[1] in m.logs and op[1] not in m.unsubscribed:
                    m.apply(["unsub", op[1]])
                    count -= 1
                    if refcount and count == 0:
                        disconnect(t)
            elif op[0] == "connect":
                connect(t)
            elif op[0] == "disconnect":
                disconnect(t)
        for _ in range(4):  # (a queued delivery may call connect() again, which brings new source events)
            if t_end is None:
                feed(sc["horizon"])
            if hasattr(m, "flush"):
                m.flush()
            if not pending or t_end is not None:
                break
        return m.tlog, intervals, t_end

    def model_mapper(self, sc):
        """mapper forms: one connection per subscriber; the mapper merges the multicasted source with itself"""
        spec = sc["sources"][0]
        f, a = sc["form"], sc["a"]
        logs, intervals = {}, []
        unsub = {op[2]: op[0] for op in sc["ops"] if op[1] == "unsub"}
        for t, name, *rest in sc["ops"]:
            if name != "sub":
                continue
            oid = rest[0]
            end = unsub.get(oid)
            log = []
            if f == "publish_value_mapper":
                log += [(t, "N", {"t": [a.get("initial")] * 2})]
            closed = end
            for et, k, v in source_events(spec, t):
                if end is not None and et > end:
                    break
                if k == "N":
                    log += [(et, "N", {"t": [v, v]})]
                else:
                    log.append((et, k, v))
                    closed = et
                    break
            logs[oid] = log
            intervals.append([t, closed])
        return logs, intervals

    def valid(self, sc):
        """(for the shrinker) well-formed history: known call names with their arguments, in time order"""
        last = None
        for op in sc["ops"]:
            if not (isinstance(op, list) and len(op) >= 2 and isinstance(op[0], (int, float)) and op[1] in ("sub", "unsub", "connect", "disconnect")):
                return False
            if op[1] in ("sub", "unsub") and len(op) != 3:
                return False
            if last is not None and op[0] < last:
                return False
            last = op[0]
        return all(v.get("do") and v["do"][0] in ("sub", "connect") for v in (sc.get("scripts") or {}).values())

    # ------------------------------------------------------------ check
    def execute(self, sc):
        out = Outcome()
        named = set(h[2] for h in sc["ops"] if h[1] in ("sub", "unsub"))
        if any(v["do"][0] == "sub" and v["do"][1] in named for v in (sc.get("scripts") or {}).values()):
            out.digest = ("invalid",)  # (only the shrinker produces this) the nested subscriber must be a new observer
            return out
        w, recs = self.run_real(sc)
        f = sc["form"]
        src = w.sources["s0"]
        got_iv = [[s.sub_t, s.disp_t] for s in src.subs]
        names = tuple(o[1] for o in sc["ops"])
        out.digest = (f, repr(sc["a"]), names, tuple(r.kinds() for r in recs.values()))
        out.sim_time = sc["horizon"]
        out.nontrivial = any(r.events for r in recs.values()) and len(sc["ops"]) >= 3
        out.probes["form:" + f] += 1
        if sc.get("scripts"):
            out.probes["nested_subscribe_script"] += 1
        desc = "form=%s args=%s source=%s ops=%s%s" % (f, sc["a"], sc["sources"][0], sc["ops"], (" scripts=%s" % sc["scripts"]) if sc.get("scripts") else "")
        for r in recs.values():
            g = vt.grammar_violation(r)
            if g:
                out.bad("grammar", "%s: %s" % (desc, g))
                return out
        # at most one live source subscription per connectable (mapper forms: one per subscriber)
        if f not in MAPPER:
            for i, (a0, b0) in enumerate(got_iv[:-1]):
                nxt = got_iv[i + 1][0]
                if b0 is None or b0 > nxt:
                    out.bad("two-live-source-subscriptions", "%s: source subscription intervals %s overlap" % (desc, got_iv))
                    return out
        if f in MAPPER:
            want_logs, want_iv = self.model_mapper(sc)
            t_end = None
            want = {o: [(float(t), k, _vk(k, vt.dec(v) if k == "N" else v)) for t, k, v in log] for o, log in want_logs.items()}
        else:
            connects = None
            if f == "auto_connect":
                connects = [(s.sub_t, sum(1 for r in recs.values() if r.sub_seq is not None and r.sub_seq < s.sub_seq)) for s in src.subs]
                v = self.auto_connect_envelope(sc, [c[0] for c in connects])
                if v:
                    out.bad("auto-connect", "%s: %s" % (desc, v))
                    return out
            tlog, want_iv, t_end = self.run_model(sc, connects)
            want = {o: [(float(t), k, _vk(k, v), opt) for t, k, v, opt in log] for o, log in tlog.items()}
        if t_end is not None:
            out.probes["source_terminated"] += 1
        if len(got_iv) > 1:
            out.probes["reconnected"] += 1
        limit = t_end if t_end is not None else float("inf")
        # source subscription intervals up to the truncation instant
        gi = [[a0, b0] for a0, b0 in got_iv if a0 <= limit]
        if t_end is not None:
            gi = gi[:len(want_iv)]  # connections made after the source terminated (even in the same instant) are not checked
        wi = [[float(a0), None if b0 is None else float(b0)] for a0, b0 in want_iv]
        if f == "auto_connect":
            gi = [x[:1] for x in gi]
            wi = [x[:1] for x in wi]  # disconnection of auto_connect is not stated
        if sorted(map(repr, gi)) != sorted(map(repr, wi)):
            out.bad("source-intervals", "%s: source subscription intervals %s, expected %s" % (desc, gi, wi))
            return out
        sub_time = {op[2]: op[0] for op in sc["ops"] if op[1] == "sub"}
        for oid, r in recs.items():
            if sub_time.get(oid, r.sub_t if r.sub_t is not None else 0) >= limit:
                continue  # subscribed at or after the instant the source terminated
            got = [(t, k, _vk(k, v)) for _, t, k, v in r.events if t <= limit]
            exp = [e for e in want.get(oid, []) if e[0] <= limit]
            if not _match(exp, got):
                out.bad("subscriber-log", "%s: subscriber %s saw %s, expected %s" % (desc, oid, got, exp))
                return out
        out.info = {"form": f, "ops": sc["ops"], "source_intervals": got_iv}
        return out

    def auto_connect_envelope(self, sc, connects):
        n = sc["a"]["n"]
        arrivals = [t for t, name, *r in sc["ops"] if name == "sub"]
        if n == 0:
            return None if connects and connects[0] <= 0 else "auto_connect(0) did not connect at once (source subscriptions at %s)" % connects
        if len(arrivals) < n:
            return "connected at %s before %d subscribers arrived" % (connects, n) if connects else None
        if connects and connects[0] < arrivals[n - 1]:
            return "connected at %s before the %d-th subscriber arrived at %s" % (connects[0], n, arrivals[n - 1])
        # moment n subscribers are subscribed at once
        live = 0
        for t, name, *r in sc["ops"]:
            if name == "sub":
                live += 1
                if live == n:
                    if not connects or connects[0] > t:
                        return "%d subscribers were subscribed at once at t=%s but the source was connected at %s" % (n, t, connects)
                    break
            elif name == "unsub":
                live -= 1
        return None

    def signature(self, sc, rule, msg):
        return {"rule": rule, "form": sc.get("form")}


def _vk(k, v):
    if k == "N":
        return vt.vkey(v)
    if k == "E":
        if isinstance(v, vt.SourceError):
            return v.tag
        if isinstance(v, dict):
            return v.get("err")
        return v if isinstance(v, str) else type(v).__name__
    return None


def _match(want, got):
    def rec(i, j):
        if i == len(want):
            return j == len(got)
        e = want[i]
        opt = len(e) > 3 and e[3]
        if j < len(got) and tuple(e[:3]) == tuple(got[j]):
            if rec(i + 1, j + 1):
                return True
        return opt and rec(i + 1, j)

    return rec(0, 0)


PROP = Prop()
