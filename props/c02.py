"""C02 Termination releases every source subscription."""
from simlib import catalog, pipe
from simlib.core import Outcome


def allow(r):
    # connectables whose lifetime is decoupled from subscribers belong to C24; share/ref_count forms are included
    return True


class Prop:
    id = "C02"
    level = "exploration"
    engine = "VT"
    quick_runs = 120000
    thorough_runs = 2000000
    rule = ("seeded pipelines (depth 1-4, 1-4 logged cold/hot/sync sources plus inner/trigger/sampler/duration pool sources) with "
            "terminating patterns emphasised (in a fifth of the runs the subscriber's own terminal callback raises, provided no subscribe() call is in progress at that moment); once the root recorder has its terminal and every window/group recorder has terminated, "
            "every logged source subscription must be disposed no later than that virtual instant and none may be open at the end; no "
            "library-scheduled action may run at a later virtual time (leaked timer/sampler). Distinct = (operators, root kinds, number of "
            "source subscriptions); non-trivial = the root terminated and at least one source subscription existed.")
    assumptions = ["conforming, well-behaved sources", "windows/groups are subscribed by child recorders on receipt",
                   "the timer-leak rule uses a counting subclass of the repo's virtual-time scheduler (public schedule_absolute seam)"]
    stubs = []

    def generate(self, rng, tier):
        depth = rng.choice([1, 2, 2, 3, 3, 4])
        sc = pipe.gen(rng, depth, allow)
        if rng.random() < 0.5:  # emphasise early termination: cap with a terminating operator
            ctx = catalog.Ctx(rng)
            ctx.sources = sc["sources"]
            ctx.nid = 50
            name = rng.choice(["take", "first", "take_while", "element_at_or_default", "take_until", "rx.amb", "some", "find", "take_with_time"])
            r = catalog.ROWS[name]
            ins = [sc["program"]]
            if r.arity != 1:
                ins.append(ctx.new_source())
                if rng.random() < 0.5:
                    ins.reverse()
            sc["program"] = {"op": name, "id": ctx.next_id(), "a": r.gen(ctx), "in": ins}
        if rng.random() < 0.2:
            sc["raise_on_terminal"] = True  # the subscriber's own on_completed / on_error callback raises: everything is released all the same
        return sc

    def execute(self, sc):
        out = Outcome()
        run = pipe.Run(sc)
        w, rec = run.w, run.rec
        ops = catalog.ops_of(sc["program"])
        nsubs = sum(len(s.subs) for s in w.sources.values())
        out.digest = (tuple(ops), rec.kinds(), nsubs)
        out.sim_time = sc["horizon"]
        run.grammar(out)
        at = run.all_terminated()
        out.info = {"ops": ops, "root": rec.kinds(), "source_subscriptions": nsubs}
        if at is None:
            out.probes["not_terminated"] += 1
            return out
        last_seq, t_last = at
        out.nontrivial = nsubs > 0
        term = rec.terminal()
        out.probes["terminal_" + term[2]] += 1
        if any(f[1].endswith(":terminal") for f in w.fired):
            out.faults["subscriber_terminal_callback_raises"] += 1
        if any(s.sub_seq < last_seq and (s.disp_seq or 0) > 0 and s.disp_seq <= last_seq + 2 for src in w.sources.values() for s in src.subs):
            out.probes["released_by_termination"] += 1
        for src in w.sources.values():
            for s in src.subs:
                if s.open():
                    out.bad("leak", "source %s subscription %s still open after the pipeline terminated at t=%s; program=%s" % (src.sid, s.as_tuple(), t_last, ops))
                    return out
                if s.disp_t > t_last and s.sub_t <= t_last:
                    out.bad("late-release", "source %s subscription %s disposed after the termination instant t=%s; program=%s" % (src.sid, s.as_tuple(), t_last, ops))
                    return out
        late = [t for t in w.s.lib_actions if t > t_last]
        if late:
            out.bad("timer-leak", "library-scheduled action ran at t=%s after the pipeline terminated at t=%s (%d such actions); program=%s" % (late[0], t_last, len(late), ops))
        return out

    signature = staticmethod(pipe.signature)


PROP = Prop()
