"""C06 Aggregating operators match their reference semantics."""
from simlib import catalog, chain, models, vt
from simlib.core import Outcome


class Prop:
    id = "C06"
    level = "exploration"
    engine = "VT"
    quick_runs = 200000
    thorough_runs = 3000000
    rule = ("seeded single aggregates (optionally behind one element-wise operator) over one generated timeline, compared value and "
            "virtual time with the Python computation (functools.reduce, min, sum, ...); sequence_equal additionally over two "
            "interleaved timelines (observable second) checked against list equality. Distinct = (operator chain, observed output, "
            "source kind); non-trivial = at least two notifications observed.")
    assumptions = ["callbacks total and deterministic", "to_set/to_dict keys are hashable ints", "conforming sources",
                   "mostly seeded input generation against a model; simulated dimensions: clock kind, error position, interleaving of the two sequence_equal inputs"]
    stubs = []
    MODELS = dict(models.ELEMENTWISE)
    MODELS.update(models.AGGREGATES)
    aggs = sorted(models.AGGREGATES)
    pre = ["map", "filter", "skip", "take", "distinct_until_changed", "start_with"]

    def generate(self, rng, tier):
        if rng.random() < 0.15:
            return self.gen_seq_equal(rng)
        ctx = catalog.Ctx(rng, hot_p=0.5, falsy_p=0.35, sync_p=0.1)
        ctx.new_source(maxn=7)
        ch = []
        if rng.random() < 0.3:
            n = rng.choice(self.pre)
            ch.append({"op": n, "id": ctx.next_id(), "a": catalog.ROWS[n].gen(ctx)})
        n = rng.choice(self.aggs)
        ch.append({"op": n, "id": ctx.next_id(), "a": catalog.ROWS[n].gen(ctx)})
        sc = {"clock": rng.choice(["test", "test", "historical", "vts"]), "sources": ctx.sources, "chain": ch, "sub_t": 205, "horizon": 1200}
        off = rng.choice([None, None, None, 37, 123, 411])
        if off:
            sc["sub2_t"] = 205 + off  # the same aggregate observable subscribed a second time (a hot source shows it other data)
        return sc

    def gen_seq_equal(self, rng):
        ctx = catalog.Ctx(rng, hot_p=0.5, falsy_p=0.3, sync_p=0.1)
        a = ctx.new_source(maxn=4)
        b = ctx.new_source(maxn=4)
        if rng.random() < 0.6:  # make them likely equal in values
            va = [e for e in ctx.sources[0]["events"] if e[1] == "N"]
            evb = ctx.sources[1]["events"]
            i = 0
            for e in evb:
                if e[1] == "N" and i < len(va):
                    e[2] = va[i][2]
                    i += 1
        return {"clock": "test", "sources": ctx.sources, "seq_equal": {"cmp": rng.choice([None, ctx.fn("cmp")])}, "sub_t": 205, "horizon": 1500}

    def execute(self, sc):
        if "seq_equal" in sc:
            return self.exec_seq_equal(sc)
        return chain.execute(sc, self.MODELS)

    def exec_seq_equal(self, sc):
        import reactivex.operators as ops
        out = Outcome()
        w = vt.World(sc["clock"])
        vt.make_sources(w, sc["sources"])
        s0, s1 = sc["sources"][0], sc["sources"][1]
        cmpspec = sc["seq_equal"]["cmp"]
        cmp = w.fn("cmp", "n1.cmp", cmpspec["m"], cmpspec["r"]) if cmpspec else None
        obs = w.sources[s0["id"]].pipe(ops.sequence_equal(w.sources[s1["id"]], cmp))
        rec = vt.Recorder(w, "r", follow=False)
        t0 = sc["sub_t"]
        w.at(t0, lambda: rec.subscribe(obs))
        w.run(sc["horizon"])
        got = models.norm(rec.events_kv())
        out.digest = ("seq_equal", tuple(got), s0["kind"], s1["kind"])
        out.sim_time = sc["horizon"]
        out.nontrivial = len(got) >= 2
        out.probes["op:sequence_equal"] += 1
        g = vt.grammar_violation(rec)
        if g:
            out.bad("grammar", g)
        # reference: merge both timelines by time; first error wins; result known as soon as decidable
        ea, eb = chain.visible(s0, t0), chain.visible(s1, t0)
        pc = models.fn(cmpspec) or (lambda x, y: x == y)
        try:
            want = models.seq_equal_model(ea, eb, pc)
        except models.Tie:
            out.probes["tie_skipped"] += 1
            return out
        wn = models.norm(want)
        if wn != got:
            out.bad("model-mismatch", "sequence_equal expected=%s got=%s" % (wn, got))
        return out


PROP = Prop()
