"""C11 Merging keeps each inner order and completes when all complete."""
import reactivex as rx
from reactivex import operators as ops

from simlib import catalog, evmodel, multi, vt
from simlib.core import Outcome

FORMS = ["merge_op", "rx.merge", "merge_all", "flat_map", "flat_map_indexed", "concat_map", "merge_mc"]


def pick_fn(sc):
    inners = sc["inners"]
    if sc["form"] == "flat_map_indexed":
        return lambda v, i: inners[(vt.h(v) + i) % len(inners)]
    return lambda v, i: inners[vt.h(v) % len(inners)]


class Prop:
    id = "C11"
    level = "exploration"
    engine = "VT"
    quick_runs = 50000
    thorough_runs = 2000000
    rule = ("merge of 2-4 sources (operator and factory) and outer timelines (0-5 elements) selecting among 2-3 inner cold/hot/sync "
            "sources (inners completing synchronously, never, or erroring while others are active) through merge_all, flat_map, "
            "flat_map_indexed, concat_map and merge(max_concurrent=1..3); output (values, virtual times, terminal) and every source's "
            "subscription intervals are compared with an event-driven reference (timed union, completion after outer and all inners, "
            "first error terminates, at most n inners subscribed, queued inners started in arrival order); every inner subscription must be given the subscriber's scheduler. Scenarios with a same-instant tie "
            "between two sources are only checked for the grammar. Distinct = (form, args, output); non-trivial = two notifications and two "
            "inner subscriptions.")
    assumptions = ["tie policy for same-instant events of different sources"]
    stubs = []

    def generate(self, rng, tier):
        form = rng.choice(FORMS)
        ctx = catalog.Ctx(rng, hot_p=0.3, falsy_p=0.25, sync_p=0.15)
        sc = {"clock": rng.choice(["test", "test", "historical"]), "form": form, "a": {}, "sub_t": 205, "horizon": 3000}
        if form in ("merge_op", "rx.merge"):
            sc["inners"] = [ctx.new_source() for _ in range(rng.choice([2, 2, 3, 4]))]
        else:
            sc["outer"] = ctx.new_source(maxn=5)
            sc["inners"] = [ctx.new_source(prefix="p", maxn=3) for _ in range(rng.choice([1, 2, 3]))]
            if form == "merge_mc":
                sc["a"]["mc"] = rng.randrange(1, 4)
        sc["sources"] = ctx.sources
        off = rng.choice([None, None, None, 37, 123, 411])
        if off:
            sc["sub2_t"] = 205 + off
            sc["horizon"] = 3500
        multi.gen_feedback(rng, sc, sc.get("outer") or sc["inners"][0], p=0.15)  # a consumer that pushes a follow-up element into the (hot) outer / first source
        return sc

    def build(self, w, sc):
        f = sc["form"]
        I = [w.sources[s] for s in sc["inners"]]
        if f == "merge_op":
            return I[0].pipe(ops.merge(*I[1:]))
        if f == "rx.merge":
            return rx.merge(*I)
        o = w.sources[sc["outer"]]
        pick = pick_fn(sc)
        sel = lambda v: w.sources[pick(v, 0)]  # noqa: E731
        if f == "merge_all":
            return o.pipe(ops.map(sel), ops.merge_all())
        if f == "flat_map":
            return o.pipe(ops.flat_map(sel))
        if f == "flat_map_indexed":
            return o.pipe(ops.flat_map_indexed(lambda v, i: w.sources[pick(v, i)]))
        if f == "concat_map":
            return o.pipe(ops.concat_map(sel))
        return o.pipe(ops.map(sel), ops.merge(max_concurrent=sc["a"]["mc"]))

    def model(self, eng, sc):
        f = sc["form"]
        if f in ("merge_op", "rx.merge"):
            return evmodel.merge_model(eng, static=sc["inners"])
        mc = 1 if f == "concat_map" else sc["a"].get("mc")
        return evmodel.merge_model(eng, outer=sc["outer"], pick=pick_fn(sc), max_concurrent=mc)

    def execute(self, sc):
        out = Outcome()
        desc = "form=%s args=%s sources=%s" % (sc["form"], sc["a"], [(s["id"], s["kind"], s["events"]) for s in sc["sources"]])
        r = multi.compare(sc, self.build, self.model, out, desc, drop_empty=True)
        out.probes["form:" + sc["form"]] += 1
        if r is None:
            return out
        w, rec, eng = r
        out.digest = (sc["form"], repr(sc["a"]), tuple(repr(e) for e in eng.out[:10]))
        nsubs = sum(len(w.sources[s].subs) for s in sc["inners"])
        out.nontrivial = out.nontrivial and nsubs >= 2
        mc = 1 if sc["form"] == "concat_map" else sc["a"].get("mc")
        if mc and sc.get("sub2_t") is None:
            # never more than n inners subscribed at once (sequence numbers)
            evs = []
            for sid in sc["inners"]:
                for x in w.sources[sid].subs:
                    evs.append((x.sub_seq, 1))
                    ends = [e for e in (x.disp_seq, x.term_seq) if e is not None]
                    if ends:
                        evs.append((min(ends), -1))  # an inner stops counting once it terminated or was unsubscribed
            live = 0
            for _, d in sorted(evs):
                live += d
                if live > mc:
                    out.bad("max-concurrent", "%s: more than %d inner sequences subscribed at once" % (desc, mc))
                    break
            if any(q for q in [1] if mc and nsubs > mc):
                out.probes["queue_nonempty_under_max_concurrent"] += 1
        # the subscriber's scheduler reaches every inner subscription, queued ones included: an inner without a scheduler of its own
        # (timer, of, interval ...) takes its timing from it, so "at their original virtual times" depends on it
        for sid in sc["inners"]:
            for x in w.sources[sid].subs:
                if x.sched is not w.s:
                    out.bad("inner-scheduler", "%s: inner %s was subscribed at %s with scheduler %r instead of the subscriber's" % (desc, sid, x.sub_t, x.sched))
                    break
        out.info = {"form": sc["form"], "args": sc["a"], "output": [list(map(str, e)) for e in eng.out[:6]]}
        return out

    def signature(self, sc, rule, msg):
        return {"rule": rule, "form": sc.get("form")}


PROP = Prop()
