"""C41 Future, callback and blocking bridges keep their contracts (AIO + VT + TH engines)."""
import asyncio
import concurrent.futures

from simlib import aio, th, vt
from simlib.core import Outcome

from reactivex.internal.exceptions import SequenceContainsNoElementsError


class Clock:
    """Minimal simulator object for the single-threaded SimLoop."""

    def __init__(self):
        self.now = 1_000_000

    def yield_point(self, *a):
        pass


def seq_source(rx, events, scheduler=None):
    """finite synchronous source from [('N', v)..., ('C',)|('E',)]"""
    def subscribe(observer, sch=None):
        for e in events:
            if e[0] == "N":
                observer.on_next(vt.dec(e[1]))
            elif e[0] == "C":
                observer.on_completed()
            else:
                observer.on_error(vt.SourceError("x"))
    return rx.create(subscribe)


def expected_last(events):
    vals = [vt.dec(e[1]) for e in events if e[0] == "N"]
    term = [e[0] for e in events if e[0] in "CE"]
    cut = next((i for i, e in enumerate(events) if e[0] in "CE"), None)
    if cut is not None:
        vals = [vt.dec(e[1]) for e in events[:cut] if e[0] == "N"]
    if not term:
        return ("pending", None)
    if term[0] == "E":
        return ("raise", "SourceError")
    if not vals:
        return ("raise", "SequenceContainsNoElementsError")
    return ("value", vals[-1])


class Prop:
    id = "C41"
    level = "exploration"
    engine = "AIO+VT+TH (deterministic asyncio loop; virtual time; controlled threads for run())"
    quick_runs = 50000
    thorough_runs = 600000
    chunk = 200
    rule = ("seeded scenarios of six kinds: from_future over asyncio futures on the deterministic loop and over concurrent futures "
            "(result / exception / cancellation / unsubscribe first, subscription before or after completion); to_future and await on "
            "the deterministic loop over empty / single / many / erroring sequences delivered synchronously or by loop timers; run() "
            "under controlled threads over sources emitting synchronously, on a simulated NewThreadScheduler or EventLoopScheduler, "
            "with forced pre-emptions; start / to_async on virtual time (function result, exception, two subscribers, a subscriber that leaves before the function ran); from_callback "
            "with 0-4 callback arguments, with and without mapper, callback invoked synchronously or later, subscribed twice. Each is "
            "compared with the contract in the statement. Distinct = (kind, parameters, outcome); non-trivial = all but the pending cases.")
    assumptions = ["from_callback with zero callback arguments may emit [] or None or () (the statement only fixes 'exactly one value, then completion')"]
    stubs = ["selector wait and clock of the asyncio loop", "threading primitives / wall clock for run()"]
    real = ["reactivex/observable/fromfuture.py, fromcallback.py, toasync.py, start.py, startasync.py, observable.py (__await__)", "reactivex/operators/_tofuture.py", "reactivex/run.py"]

    def generate(self, rng, tier):
        kind = rng.choice(["from_future", "from_future", "to_future", "await", "run", "start", "from_callback", "from_callback"])
        n = rng.choice([0, 1, 1, 2, 3])
        events = [["N", vt.gen_value(rng, 0.4)] for _ in range(n)]
        t = rng.choice(["C", "C", "C", "E"])
        events.append([t])
        sc = {"kind": kind}
        if kind == "from_future":
            sc.update({"future": rng.choice(["asyncio", "asyncio", "concurrent"]), "outcome": rng.choice(["result", "result", "exception", "cancel", "unsubscribe"]),
                       "value": vt.gen_value(rng, 0.5), "subscribe_first": rng.random() < 0.7, "via_start_async": rng.random() < 0.25})
        elif kind in ("to_future", "await"):
            sc.update({"events": events, "timed": rng.random() < 0.5,
                       # to_future: the same operator object has already converted another (non-empty) sequence
                       "reused": rng.random() < 0.3})
        elif kind == "run":
            sc.update({"events": events, "via": rng.choice(["sync", "newthread", "eventloop", "default"]), "sched": th.gen_sched(rng, ks=(0, 1, 2, 3))})
        elif kind == "start":
            sc.update({"form": rng.choice(["start", "to_async"]), "raises": rng.random() < 0.25, "value": vt.gen_value(rng, 0.5), "subscribers": rng.choice([1, 2, 2]),
                       "late": rng.random() < 0.5,
                       # one more subscriber that subscribes before the scheduler has run the function and unsubscribes at once
                       "early_leaver": rng.random() < 0.35})
        else:
            sc.update({"nargs": rng.randrange(0, 5), "mapper": rng.choice([None, None, "tuple", "raise"]), "later": rng.random() < 0.4, "func_args": rng.randrange(0, 3),
                       "subscriptions": rng.choice([1, 2, 2])})
        return sc

    def execute(self, sc):
        out = Outcome()
        out.probes["kind:" + sc["kind"]] += 1
        getattr(self, "x_" + sc["kind"].replace("await", "to_future"))(sc, out)
        if out.digest is None:
            out.digest = repr({k: v for k, v in sc.items() if k not in ("seed", "index", "sched")})
        out.info = {"scenario": {k: v for k, v in sc.items() if k not in ("seed", "index")}}
        return out

    # ------------------------------------------------------------ from_future
    def x_from_future(self, sc, out):
        import reactivex as rx
        clock = Clock()
        loop = aio.make_loop(clock)
        log = []
        desc = "from_future %s" % {k: v for k, v in sc.items() if k not in ("seed", "index")}
        if sc["future"] == "asyncio":
            fut = loop.create_future()
        else:
            fut = concurrent.futures.Future()
        boom = vt.SourceError("f")
        value = vt.dec(sc["value"])

        def settle():
            if sc["outcome"] == "result":
                fut.set_result(value)
            elif sc["outcome"] == "exception":
                fut.set_exception(boom)
            elif sc["outcome"] == "cancel":
                fut.cancel()

        box = {}

        def subscribe():
            src = rx.start_async(lambda: fut) if sc.get("via_start_async") else rx.from_future(fut)
            box["d"] = src.subscribe(lambda v: log.append(("N", v)), lambda e: log.append(("E", e)), lambda: log.append(("C", None)))

        if sc["outcome"] == "unsubscribe":
            subscribe()
            box["d"].dispose()
        elif sc["subscribe_first"]:
            subscribe()
            settle()
        else:
            settle()
            subscribe()
        if sc["future"] == "asyncio":
            loop.call_later(0.01, loop.stop)
            loop.run_forever()
        loop.close()
        out.nontrivial = True
        got = [(k, vt.vkey(v) if k == "N" else type(v).__name__ if k == "E" else None) for k, v in log]
        if sc["outcome"] == "result":
            want = [("N", vt.vkey(value)), ("C", None)]
        elif sc["outcome"] == "exception":
            want = [("E", "SourceError")]
        elif sc["outcome"] == "cancel":
            want = [("E", "CancelledError")]
        else:
            want = []
            if not fut.cancelled():
                out.bad("from-future", "%s: unsubscribing before completion did not cancel the future" % desc)
        if got != want:
            out.bad("from-future", "%s: subscriber saw %s, expected %s" % (desc, got, want))

    # ------------------------------------------------------------ to_future / await
    def x_to_future(self, sc, out):
        import reactivex as rx
        from reactivex import operators as ops
        from reactivex.scheduler.eventloop import AsyncIOScheduler
        clock = Clock()
        loop = aio.make_loop(clock)
        events = sc["events"]
        desc = "%s %s" % (sc["kind"], {k: v for k, v in sc.items() if k not in ("seed", "index")})
        if sc["timed"]:
            sch = AsyncIOScheduler(loop)

            def subscribe(observer, s=None):
                for i, e in enumerate(events):
                    def emit(_s=None, _st=None, e=e):
                        if e[0] == "N":
                            observer.on_next(vt.dec(e[1]))
                        elif e[0] == "C":
                            observer.on_completed()
                        else:
                            observer.on_error(vt.SourceError("x"))
                    sch.schedule_relative(0.001 * (i + 1), emit)
            src = rx.create(subscribe)
        else:
            src = seq_source(rx, events)
        res = {}
        if sc["kind"] == "to_future":
            op = ops.to_future(loop.create_future)
            if sc.get("reused"):
                earlier = seq_source(rx, [["N", 77], ["C"]]).pipe(op)
                loop.run_until_complete(asyncio.wait_for(earlier, 1.0))
            fut = src.pipe(op)

            async def main():
                return await fut
        else:
            async def main():
                return await src
        try:
            res["value"] = loop.run_until_complete(asyncio.wait_for(main(), 1.0))
            res["how"] = "value"
        except Exception as e:  # noqa: BLE001
            res["how"] = "raise"
            res["value"] = type(e).__name__
        loop.close()
        want = expected_last(events)
        out.nontrivial = True
        got = (res["how"], vt.vkey(res["value"]) if res["how"] == "value" else res["value"])
        exp = (want[0], vt.vkey(want[1]) if want[0] == "value" else want[1])
        if got != exp:
            out.bad("to-future", "%s: got %s, expected %s" % (desc, got, exp))

    # ------------------------------------------------------------ run()
    def x_run(self, sc, out):
        holder = {}

        def factory():
            st = {}
            holder["st"] = st

            def body(sim, shim):
                import reactivex as rx
                from reactivex import operators as ops
                from reactivex.scheduler import EventLoopScheduler, NewThreadScheduler
                src = seq_source(rx, sc["events"])
                via = sc["via"]
                sim.mark()
                try:
                    if via == "sync":
                        st["value"] = src.run()
                    elif via == "default":
                        st["value"] = src.pipe(ops.subscribe_on(NewThreadScheduler())).run()
                    elif via == "newthread":
                        st["value"] = src.pipe(ops.observe_on(NewThreadScheduler())).run()
                    else:
                        st["value"] = src.pipe(ops.delay(0.002, EventLoopScheduler(exit_if_empty=True))).run()
                    st["how"] = "value"
                except Exception as e:  # noqa: BLE001
                    st["how"] = "raise"
                    st["value"] = type(e).__name__

            return body

        sim, cps = th.explore(sc, factory, out, focus=("run.py", "scheduledobserver.py", "_delay.py"))
        st = holder["st"]
        desc = "run() %s cps=%s" % ({k: v for k, v in sc.items() if k not in ("seed", "index")}, cps)
        out.nontrivial = True
        out.digest = ("run", sc["via"], repr(sc["events"]), th.interleaving_digest(sim))
        if sim.failure:
            out.bad(sim.failure[0], "%s: %s" % (desc, sim.failure[1]))
        elif sim.thread_errors:
            out.bad("thread-exception", "%s: %r" % (desc, sim.thread_errors[0]))
        else:
            want = expected_last(sc["events"])
            got = (st.get("how"), vt.vkey(st.get("value")) if st.get("how") == "value" else st.get("value"))
            exp = (want[0], vt.vkey(want[1]) if want[0] == "value" else want[1])
            if got != exp:
                out.bad("run", "%s: run() gave %s, expected %s" % (desc, got, exp))
        if out.viol:
            w = dict(sc)
            w["cps"] = cps
            out.witness = w

    # ------------------------------------------------------------ start / to_async
    def x_start(self, sc, out):
        import reactivex as rx
        w = vt.World("test")
        calls = []
        value = vt.dec(sc["value"])

        def func(*a):
            calls.append(a)
            if sc["raises"]:
                raise vt.InjectedFault("func")
            return value

        recs = [vt.Recorder(w, "r%d" % i, follow=False) for i in range(sc["subscribers"])]
        box = {}

        def build():
            box["obs"] = rx.start(func, w.s) if sc["form"] == "start" else rx.to_async(func, w.s)(1, 2)

        w.at(100, build)
        leaver = vt.Recorder(w, "leaver", follow=False)
        if sc.get("early_leaver"):
            def come_and_go():
                leaver.subscribe(box["obs"])
                leaver.dispose()
            w.at(100, come_and_go)
        for i, r in enumerate(recs):
            w.at((150 if (sc["late"] and i) else 100) + i, (lambda r=r: r.subscribe(box["obs"])))
        w.run(500)
        desc = "%s %s" % (sc["form"], {k: v for k, v in sc.items() if k not in ("seed", "index")})
        out.nontrivial = True
        if len(calls) != 1:
            out.bad("start", "%s: the function was invoked %d times (expected once)" % (desc, len(calls)))
        if sc["form"] == "to_async" and calls and calls[0] != (1, 2):
            out.bad("start", "%s: the function received arguments %s" % (desc, calls[0]))
        if leaver.events:
            out.bad("start", "%s: a subscriber that had unsubscribed before the function ran received %s" % (desc, leaver.kinds()))
        for r in recs:
            got = [(k, vt.vkey(v) if k == "N" else type(v).__name__ if k == "E" else None) for _, _, k, v in r.events]
            want = [("E", "InjectedFault")] if sc["raises"] else [("N", vt.vkey(value)), ("C", None)]
            if got != want:
                out.bad("start", "%s: subscriber %s saw %s, expected %s" % (desc, r.name, got, want))

    # ------------------------------------------------------------ from_callback
    def x_from_callback(self, sc, out):
        import reactivex as rx
        w = vt.World("test")
        cb_args = tuple("a%d" % i for i in range(sc["nargs"]))
        received = []

        def func(*args):
            *fa, cb = args
            received.append(tuple(fa))
            if sc["later"]:
                w.at(w.now() + 10, lambda: cb(*cb_args))
            else:
                cb(*cb_args)

        mapper = None
        if sc["mapper"] == "tuple":
            mapper = lambda args: ("mapped",) + tuple(args)  # noqa: E731
        elif sc["mapper"] == "raise":
            def mapper(args):
                raise vt.InjectedFault("mapper")
        fargs = tuple("f%d" % i for i in range(sc["func_args"]))
        obs = rx.from_callback(func, mapper)(*fargs)
        recs = [vt.Recorder(w, "r%d" % i, follow=False) for i in range(sc["subscriptions"])]
        for i, r in enumerate(recs):
            w.at(100 + 50 * i, (lambda r=r: _sub(r, obs)))
        w.run(600)
        desc = "from_callback %s" % {k: v for k, v in sc.items() if k not in ("seed", "index")}
        out.nontrivial = True
        for i, r in enumerate(recs):
            got = [(k, vt.vkey(v) if k == "N" else type(v).__name__ if k == "E" else None) for _, _, k, v in r.events]
            if sc["mapper"] == "raise":
                ok = got == [("E", "InjectedFault")]
                want = "[on_error(InjectedFault)]"
            elif sc["mapper"] == "tuple":
                want = [("N", vt.vkey(("mapped",) + cb_args)), ("C", None)]
                ok = got == want
            elif sc["nargs"] == 0:
                want = "one of [] / None / () then completion"
                ok = len(got) == 2 and got[0][0] == "N" and got[0][1] in (vt.vkey([]), vt.vkey(None), vt.vkey(())) and got[1] == ("C", None)
            elif sc["nargs"] == 1:
                want = [("N", vt.vkey("a0")), ("C", None)]
                ok = got == want
            else:
                want = "the callback arguments %s as one list/tuple, then completion" % (cb_args,)
                ok = len(got) == 2 and got[0][0] == "N" and got[0][1] in (vt.vkey(list(cb_args)), vt.vkey(cb_args)) and got[1] == ("C", None)
            if not ok:
                out.bad("from-callback", "%s: subscription #%d saw %s, expected %s" % (desc, i, got, want))
                break
        if len(received) == len(recs) and any(fa != fargs for fa in received):
            out.bad("from-callback", "%s: the wrapped function received %s, expected the given arguments %s plus the callback each time" % (desc, received, fargs))


def _sub(r, obs):
    try:
        r.subscribe(obs)
    except Exception as e:  # noqa: BLE001
        r.events.append((r.w.tick(), r.w.now(), "E", e))


PROP = Prop()
