"""C43 Combinators serialize concurrently emitting sources (TH engine)."""
import os

from simlib import th, vt
from simlib.core import Outcome

OPS = ["merge", "merge_all", "flat_map", "merge_mc", "zip", "combine_latest", "with_latest_from", "amb", "window_with_time", "window_with_time_or_count"]


class Rec:
    """Subscriber whose callbacks contain yield points and detect concurrent entry."""

    def __init__(self, work, sim, name):
        self.work, self.sim, self.name = work, sim, name
        self.events = []
        self.inside = None
        self.open_t = sim.now

    def _enter(self, kind, v=None):
        sim = self.sim
        me = sim.current.name
        if self.inside is not None and self.inside != me:
            self.work.user_overlap = (self.name, self.inside, me, kind)
        prev = self.inside
        self.inside = me
        self.events.append((sim.tick(), kind, me, sim.now))
        sim.yield_point("user.cb")
        sim.yield_point("user.cb2")
        self.inside = prev

    def on_next(self, v):
        from reactivex import Observable
        if isinstance(v, Observable):
            child = Rec(self.work, self.sim, "%s.%d" % (self.name, len(self.work.recs)))
            self.work.recs.append(child)
            self.work.watch[id(child)] = child
            v.subscribe(child.on_next, child.on_error, child.on_completed)
        self._enter("N", v)

    def on_error(self, e):
        self._enter("E")

    def on_completed(self):
        self._enter("C")


class Work:
    def __init__(self, sc):
        self.sc = sc
        self.recs = []
        self.watch = {}
        self.user_overlap = None
        self.ado_overlap = None
        self.inside_ado = {}

    def install_hook(self, sim):
        work = self

        def hook(frame, event, arg):
            code = frame.f_code
            if code.co_name in ("on_next", "on_error", "on_completed") and code.co_filename.endswith("autodetachobserver.py"):
                ado = frame.f_locals.get("self")
                target = getattr(getattr(ado, "_on_next", None), "__self__", None)
                if isinstance(target, Rec):
                    me = sim.current.name
                    lst = work.inside_ado.setdefault(id(ado), [])
                    others = [x for x in lst if x != me]
                    if others and work.ado_overlap is None:
                        work.ado_overlap = (target.name, others[0], me, code.co_name)
                    lst.append(me)

                    def lt(frame, event, arg):
                        if event == "return":
                            lst.remove(me)
                        sim.local_tracer(frame, event, arg)
                        return lt

                    return lt
            return sim.local_tracer

        sim.trace_hook = hook

    def body(self, sim, shim):
        import reactivex as rx
        from reactivex import operators as ops
        from reactivex.scheduler import EventLoopScheduler
        from reactivex.subject import Subject

        sc = self.sc
        self.install_hook(sim)
        n = len(sc["scripts"])
        subs = [Subject() for _ in range(n)]
        op = sc["op"]
        self.inner_subscriptions = 0
        if op == "merge":
            obs = rx.merge(*subs)
        elif op in ("merge_all", "flat_map", "merge_mc"):
            outer = subs[0]

            def counted(s_):
                def factory(_sch):
                    self.inner_subscriptions += 1
                    return s_
                return rx.defer(factory)

            inners = [counted(s_) for s_ in subs[1:]]
            if op == "merge_all":
                obs = outer.pipe(ops.map(lambda i: inners[i % len(inners)]), ops.merge_all())
            elif op == "flat_map":
                obs = outer.pipe(ops.flat_map(lambda i: inners[i % len(inners)]))
            else:
                obs = outer.pipe(ops.map(lambda i: inners[i % len(inners)]), ops.merge(max_concurrent=sc.get("mc", 1)))
        elif op == "zip":
            obs = rx.zip(*subs)
        elif op == "combine_latest":
            obs = rx.combine_latest(*subs)
        elif op == "with_latest_from":
            obs = subs[0].pipe(ops.with_latest_from(*subs[1:]))
        elif op == "amb":
            obs = rx.amb(*subs)
        elif op == "window_with_time":
            obs = rx.merge(*subs).pipe(ops.window_with_time(sc.get("span", 0.005), scheduler=EventLoopScheduler()))
        else:
            obs = rx.merge(*subs).pipe(ops.window_with_time_or_count(sc.get("span", 0.005), sc.get("count", 2), scheduler=EventLoopScheduler()))
        root = Rec(self, sim, "r")
        self.recs.append(root)
        obs.subscribe(root.on_next, root.on_error, root.on_completed)
        sim.mark()

        def driver(s, script):
            def run():
                for ev in script:
                    if ev[0] == "N":
                        s.on_next(ev[1])
                    elif ev[0] == "sleep":
                        sim.sleep(ev[1] / 1000.0)
                    elif ev[0] == "C":
                        s.on_completed()
                    else:
                        s.on_error(vt.SourceError("s"))
            return run

        for i, script in enumerate(sc["scripts"]):
            sim.spawn(driver(subs[i], script), "src%d" % i, "work")


class Prop:
    id = "C43"
    level = "exploration"
    engine = "TH (controlled threads: baton passing, line-level pre-emption points, simulated locks/conditions/clock)"
    quick_runs = 10000
    thorough_runs = 300000
    chunk = 100
    time_unit = "simulated seconds"
    rule = ("2-3 Subject sources, each driven serially by its own controlled thread with a seeded script (0-4 elements, optional sleeps, "
            "completion or error), through merge, merge_all / flat_map / merge(max_concurrent) (outer sequence on its own thread too), zip, "
            "combine_latest, with_latest_from, amb and window_with_time(_or_count) on an event-loop scheduler thread; 0-3 forced "
            "pre-emptions (site-first sampling over a dry run, focused on the operator's files); 5% of the scenarios get a single-pre-emption "
            "sweep instead (one run per change point of the operator's files, up to 120). Checked: (a) no thread enters the "
            "subscriber's on_next/on_error/on_completed (the downstream auto-detach observer, traced at call/return) while another "
            "thread is inside; (b) no thread enters a user callback while another is inside; (c) every recorder (root and windows) sees "
            "on_next* (on_error|on_completed)?; (d) no deadlock; (d') merge_all / flat_map / merge(max_concurrent): an output that completed has subscribed every inner sequence "
            "it was handed; (e) window_with_time_or_count: every window but the last is full or at least "
            "the time span old when it closes (a stale timer of an earlier window must not close a later one). Distinct = (operator, scripts, context-switch sequence); non-trivial = a "
            "forced pre-emption fired and at least two source threads delivered something.")
    assumptions = ["each source emits serially from its own thread (the statement's precondition)", "line-level pre-emption granularity"]
    stubs = ["threading.RLock/Lock/Condition/Thread (simulated)", "wall clock -> simulated clock"]
    real = ["reactivex/operators/_merge.py", "reactivex/observable/zip.py, combinelatest.py, withlatestfrom.py, merge.py, amb.py", "reactivex/operators/_amb.py, _windowwithtime.py, _windowwithtimeorcount.py",
            "reactivex/internal/concurrency.py", "reactivex/observer/autodetachobserver.py", "reactivex/subject/subject.py", "reactivex/scheduler/eventloopscheduler.py"]
    FOCUS = {"merge": ("_merge.py", "merge.py"), "merge_all": ("_merge.py",), "flat_map": ("_merge.py", "_flatmap.py"), "merge_mc": ("_merge.py",),
             "zip": ("zip.py",), "combine_latest": ("combinelatest.py",), "with_latest_from": ("withlatestfrom.py",), "amb": ("_amb.py", "amb.py"),
             "window_with_time": ("_windowwithtime.py",), "window_with_time_or_count": ("_windowwithtimeorcount.py",)}

    def generate(self, rng, tier):
        op = rng.choice(OPS + ["merge_mc", "merge_mc", "merge_all", "flat_map"])  # the operators with the most shared state get a larger share
        if os.environ.get("VERIF_C43_OP"):
            op = os.environ["VERIF_C43_OP"]  # (experiments only) concentrate a run on one operator
        n = rng.choice([2, 2, 3])
        scripts = []
        for i in range(n):
            ev = []
            for j in range(rng.randrange(0, 5)):
                ev.append(["N", (i * 10 + j) if not (op in ("merge_all", "flat_map", "merge_mc") and i == 0) else j])
                if rng.random() < 0.2:
                    ev.append(["sleep", rng.choice([1, 3, 6])])
            ev.append([rng.choice(["C", "C", "E"])])
            scripts.append(ev)
        sc = {"op": op, "scripts": scripts, "sched": th.gen_sched(rng, ks=(1, 2, 2, 3, 3), sweep_p=0.05)}
        if op == "merge_mc":
            sc["mc"] = rng.choice([1, 2])
        if op.startswith("window"):
            sc["span"] = rng.choice([0.001, 0.003, 0.006])
            sc["count"] = rng.choice([1, 2, 3])
        return sc

    def execute(self, sc):
        if sc["sched"].get("sweep") and "cps" not in sc:
            return th.sweep(self.execute, sc)
        out = Outcome()
        holder = {}

        def factory():
            w = Work(sc)
            holder["w"] = w
            return w.body

        sim, cps = th.explore(sc, factory, out, focus=self.FOCUS.get(sc["op"], ()) + ("autodetachobserver.py",))
        w = holder["w"]
        dig = th.interleaving_digest(sim)
        out.digest = (sc["op"], repr(sc["scripts"]), dig)
        threads = set(e[2] for r in w.recs for e in r.events)
        out.nontrivial = sim.faults["preempt"] > 0 and len(threads) >= 2
        out.probes["op:" + sc["op"]] += 1
        desc = "op=%s scripts=%s cps=%s" % (sc["op"], sc["scripts"], cps)

        def bad(rule, msg):
            if not out.viol:
                out.bad(rule, "%s: %s" % (desc, msg))

        if sim.failure:
            bad(sim.failure[0], sim.failure[1])
        if sim.thread_errors:
            bad("thread-exception", repr(sim.thread_errors[0]))
        if w.user_overlap:
            bad("user-callback-overlap", "recorder %s: thread %s entered %s while thread %s was inside a callback" % (w.user_overlap[0], w.user_overlap[2], w.user_overlap[3], w.user_overlap[1]))
        for r in w.recs:
            ks = "".join(e[1] for e in r.events)
            for i, k in enumerate(ks):
                if k in "EC" and i != len(ks) - 1:
                    bad("grammar", "recorder %s received %r" % (r.name, ks))
                    break
        if sc["op"] in ("merge_all", "flat_map", "merge_mc") and not sim.failure and not sim.thread_errors:
            # the merged output completes only after every inner sequence it was handed has completed: all of them were subscribed
            root_kinds = "".join(e[1] for e in w.recs[0].events)
            handed = sum(1 for e in sc["scripts"][0] if e[0] == "N")
            if root_kinds.endswith("C") and w.inner_subscriptions != handed:
                bad("inner-never-subscribed", "the output completed although only %d of the %d inner sequences handed to it were ever subscribed" % (w.inner_subscriptions, handed))
            out.probes["inner_subscriptions_checked"] += 1
        if sc["op"] == "window_with_time_or_count":
            # a window other than the last one was closed by its rule: it is full, or at least `span` old (timers never fire early)
            span_us, cnt = int(round(sc.get("span", 0.005) * 1e6)), sc.get("count", 2)
            wins = w.recs[1:]
            for r in wins[:-1]:
                closes = [e for e in r.events if e[1] == "C"]
                n = sum(1 for e in r.events if e[1] == "N")
                if closes and n != cnt and closes[0][3] - r.open_t < span_us:
                    bad("window-closed-early", "window %s was closed %d us after it opened holding %d element(s): neither %d elements nor %d us old" % (
                        r.name, closes[0][3] - r.open_t, n, cnt, span_us))
                    break
            if len(wins) > 1:
                out.probes["window_rule_checked"] += 1
        if w.ado_overlap:
            bad("observer-overlap", "downstream observer of %s: thread %s entered %s while thread %s was inside the observer" % (
                w.ado_overlap[0], w.ado_overlap[2], w.ado_overlap[3], w.ado_overlap[1]))
        if out.viol:
            wsc = dict(sc)
            wsc["cps"] = cps
            out.witness = wsc
        out.info = {"op": sc["op"], "scripts": sc["scripts"], "cps": cps, "root": "".join(e[1] for e in w.recs[0].events)}
        return out

    def signature(self, sc, rule, msg):
        return {"rule": rule, "op": sc.get("op")}


PROP = Prop()
