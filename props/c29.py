"""C29 Virtual-time runs always finish."""
from datetime import timedelta

from simlib import vt
from simlib.core import Outcome

from reactivex.disposable import Disposable
from reactivex.scheduler import HistoricalScheduler, VirtualTimeScheduler
from reactivex.testing import TestScheduler


class SelfDeadlock(BaseException):
    """The only thread of the run tries to take a non-reentrant lock it already holds: it would block for ever."""


class CheckedLock:
    """Stand-in for the scheduler's threading.Lock in this single-threaded run: same protocol, but a second
    acquire by the (only) thread is reported at once instead of blocking until the watchdog expires."""

    def __init__(self):
        self.held = False

    def acquire(self, blocking=True, timeout=-1):
        if self.held:
            if not blocking or timeout >= 0:
                return False
            raise SelfDeadlock()
        self.held = True
        return True

    def release(self):
        if not self.held:
            raise RuntimeError("release unlocked lock")
        self.held = False

    def locked(self):
        return self.held

    __enter__ = acquire

    def __exit__(self, *exc):
        self.release()


class Prop:
    id = "C29"
    level = "exploration"
    engine = "VT (with the CPU-time watchdog as part of the oracle)"
    quick_runs = 8000
    thorough_runs = 100000
    run_wall = 2.0
    hang_rule = "did-not-finish"
    chunk = 50
    rule = ("seeded finite schedules with 0-400 actions at the same due time (plus a few at other times), some of which reschedule "
            "themselves at the current time a bounded number of times one of which may call advance_by() on the running scheduler (a no-op then), and some of which are cancelled while queued (right after scheduling, or by "
            "the action scheduled just before them), on VirtualTimeScheduler/TestScheduler (numeric clock) and "
            "HistoricalScheduler (datetime clock), driven by start() or advance_to(); the run must return within the CPU-time watchdog, "
            "every action must have run exactly once per scheduling in (due, seq) order with a monotone clock, and a drained scheduler "
            "must run newly scheduled work when started again. Distinct = (clock kind, driver, burst size, reschedule count); non-trivial "
            "= more than 100 actions shared an instant.")
    assumptions = ["a hang is detected by SIGPROF after 2 s of CPU time per run (process CPU time, so that a stalled machine is not a verdict)"]
    stubs = ["the scheduler's private threading.Lock is replaced by a same-protocol lock that reports a second acquire by the only thread (self-deadlock) at once"]

    def generate(self, rng, tier):
        burst = rng.choice([0, 1, 50, 99, 100, 101, 102, 150, 203, 250, 400])
        return {"clock": rng.choice(["vts", "test", "historical", "historical"]), "burst": burst, "at": rng.choice([0, 10, 50]),
                "resched": rng.choice([0, 0, 1, 5, 120]), "others": [rng.choice([0, 5, 10, 60, 100]) for _ in range(rng.randrange(0, 4))],
                "driver": rng.choice(["start", "advance_to"]), "restart": rng.choice([1, 3, 150]),
                # cancelled work in the queue: disposed right after scheduling (k-th scheduled action), or by the action scheduled before it
                "cancel_pre": sorted(set(rng.randrange(0, max(1, burst + 3)) for _ in range(rng.choice([0, 0, 1, 2])))),
                "cancel_by_prev": sorted(set(rng.randrange(1, max(2, burst + 3)) for _ in range(rng.choice([0, 0, 1])))),
                # one action calls advance_by() on the scheduler that is running it (a no-op while a run is in progress)
                "nested_advance": rng.choice([None, None, None, 0, 1, 2, 60])}

    def execute(self, sc):
        out = Outcome()
        kind = sc["clock"]
        hist = kind == "historical"
        s = {"vts": lambda: VirtualTimeScheduler(0.0), "test": TestScheduler, "historical": HistoricalScheduler}[kind]()
        if type(getattr(s, "_lock", None)).__name__ == "lock":
            s._lock = CheckedLock()  # seam: the scheduler's own mutex; a self-deadlock is then seen at once, not after the watchdog
        try:
            return self.drive(sc, s, kind, hist, out)
        except SelfDeadlock:
            out.digest = (kind, sc["driver"], "self-deadlock")
            out.nontrivial = True
            out.bad("did-not-finish", "clock=%s driver=%s burst=%d resched=%d: the running thread re-acquires the scheduler's non-reentrant lock, %s would never return" % (
                kind, sc["driver"], sc["burst"], sc["resched"], sc["driver"]))
            return out

    def drive(self, sc, s, kind, hist, out):

        def now():
            c = s.clock
            return (c - vt.UTC0).total_seconds() if hist else float(c)

        def ab(t):
            return vt.UTC0 + timedelta(seconds=t) if hist else float(t)

        log = []
        expected = []
        seq = [0]
        disps = []  # disposables of the scheduled actions, in scheduling order
        pre = set(sc.get("cancel_pre") or [])
        by_prev = set(sc.get("cancel_by_prev") or [])
        cancelled = set()

        def add(t, n_resched=0):
            seq[0] += 1
            aid = seq[0]
            k = len(disps)
            expected.append((t, aid))

            def action(scheduler, state=None):
                log.append((aid, now()))
                if sc.get("nested_advance") == k:
                    s.advance_by(7.0)
                if k + 1 in by_prev and k + 1 < len(disps):
                    disps[k + 1].dispose()  # cancels the action scheduled right after this one (it may share this due time)
                if n_resched:
                    # reschedule at the current time, a bounded number of times
                    seq[0] += 1
                    rid = seq[0]
                    left = [n_resched]

                    def again(sc2, st=None):
                        log.append((rid, now()))
                        left[0] -= 1
                        if left[0] > 0:
                            sc2.schedule(again)
                        return Disposable()

                    scheduler.schedule(again)
                return Disposable()

            disps.append(s.schedule_absolute(ab(t), action))
            if k in pre:
                disps[k].dispose()
                cancelled.add(aid)
            return aid

        for i in range(sc["burst"]):
            add(sc["at"], sc["resched"] if i == 0 else 0)
        for t in sc["others"]:
            add(t)
        horizon = 5000
        if sc["driver"] == "start" and kind != "test":
            s.start()
        else:
            s.advance_to(ab(horizon))
        out.digest = (kind, sc["driver"], sc["burst"], sc["resched"], len(log), tuple(sorted(pre)), tuple(sorted(by_prev)))
        out.sim_time = now()
        out.nontrivial = sc["burst"] > 100 or sc["resched"] > 100
        out.probes["clock:" + kind] += 1
        if sc["burst"] > 100:
            out.probes["burst_over_100"] += 1
        ran = [a for a, _ in log]
        want_order = []
        dead = set(cancelled)
        for t, aid in sorted(expected):  # (due, scheduling order); aid - 1 is the scheduling index
            if aid in dead:
                continue
            want_order.append(aid)
            if aid in by_prev:  # index aid is the one scheduled right after this action: cancelled by it, unless it ran already
                if (aid + 1) not in want_order:
                    dead.add(aid + 1)
        if pre or by_prev:
            out.probes["cancelled_items_in_queue"] += 1
        scheduled_ids = set(aid for _, aid in expected)
        first_runs = [a for a in ran if a in scheduled_ids]
        if first_runs != want_order:
            out.bad("order-or-lost", "clock=%s: %d scheduled actions, ran %d; first divergence at position %s" % (
                kind, len(want_order), len(first_runs), next((i for i, (x, y) in enumerate(zip(first_runs, want_order)) if x != y), min(len(first_runs), len(want_order)))))
        n_re = len([a for a in ran if a not in scheduled_ids])
        exp_re = sc["resched"] if (sc["burst"] and 1 in want_order) else 0  # (the self-rescheduling action is the first one scheduled)
        if n_re != exp_re:
            out.bad("reschedule-count", "self-rescheduling action ran %d times, expected %d" % (n_re, exp_re))
        ts = [t for _, t in log]
        if any(ts[i] > ts[i + 1] for i in range(len(ts) - 1)):
            out.bad("clock-backwards", "clock went backwards during the run")
        # a drained scheduler can be started again
        log2 = []
        for i in range(sc["restart"]):
            s.schedule_relative(10.0, lambda sc2, st=None, i=i: log2.append(i) or Disposable())
        if kind != "test":
            s.start()
        else:
            s.advance_by(100.0)
        if log2 != list(range(sc["restart"])):
            out.bad("restart", "after the queue drained, %d newly scheduled actions were scheduled but %d ran" % (sc["restart"], len(log2)))
        out.info = {"clock": kind, "burst": sc["burst"], "ran": len(log)}
        return out

    def signature(self, sc, rule, msg):
        return {"rule": rule, "clock": sc.get("clock")}


PROP = Prop()
