"""C35 Periodic scheduling threads state, keeps the period and stops (VT + TH engines)."""
from datetime import timedelta

from simlib import th, vt
from simlib.core import Outcome


class Boom(Exception):
    pass


class Prop:
    id = "C35"
    level = "exploration"
    engine = "VT+TH (virtual-time schedulers single-threaded; event-loop / new-thread / timeout schedulers under controlled threads)"
    quick_runs = 20000
    thorough_runs = 400000
    chunk = 100
    time_unit = "virtual seconds (VT part) / simulated seconds (TH part)"
    rule = ("VT: seeded periods, dispose instants and raise positions for schedule_periodic on VirtualTimeScheduler, TestScheduler, "
            "HistoricalScheduler (datetime clock) and CatchScheduler over a virtual scheduler, and for interval / timer(due, period) (also with a due time already past at subscription): tick k "
            "must run exactly at k*period (also when a tick itself takes virtual time, less than a period) with the state returned by tick k-1, no tick may start after dispose() returned, none after a tick "
            "raised, interval/timer emit 0,1,2,... at those ticks. TH: the same on EventLoopScheduler, NewThreadScheduler and "
            "TimeoutScheduler (bare, or wrapped in a CatchScheduler whose handler swallows or refuses the exception) with a controlled disposing thread, "
            "0-3 forced pre-emptions (some of them stalls: the thread stays off the CPU for 0.3-40 simulated ms), spurious wake-ups and clock drift, ticks that take 0-3 periods of simulated time themselves: ticks never "
            "early (tick k not before k*period after scheduling) and not missing (all but the last elapsed period have ticked when dispose() is called, "
            "also on a scheduler whose worker thread is already alive and idle), state threaded, ticks serial, none after a raise, and after dispose() "
            "returned at most the one tick the worker had already committed to (none if the worker was blocked or the dispose came from "
            "inside a tick). Distinct = (scheduler, period, dispose/raise plan, context-switch sequence); non-trivial = at least two ticks ran.")
    assumptions = ["commit-window rule for cross-thread dispose (DESIGN.md section 9)", "an action that raises escapes VirtualTimeScheduler.start(); the harness calls stop() and resumes"]
    stubs = ["TH part: threading primitives, Timer and the wall clock are simulated"]
    real = ["reactivex/scheduler/periodicscheduler.py, virtualtimescheduler.py, historicalscheduler.py, catchscheduler.py, eventloopscheduler.py, newthreadscheduler.py, timeoutscheduler.py",
            "reactivex/observable/timer.py, interval.py"]

    def generate(self, rng, tier):
        if rng.random() < 0.55:
            return {"mode": "vt", "on": rng.choice(["vts", "test", "historical", "catch", "interval", "timer"]), "period": rng.choice([1, 5, 10, 30]),
                    "due": rng.choice([0, 5, 10, 25, 25, -5, -50]), "dispose_at": rng.choice([None, None, 7, 10, 20, 35, 50, 95]), "tie": rng.choice(["early", "late"]),
                    "raise_at": rng.choice([None, None, None, 0, 1, 3]), "dispose_in_tick": rng.choice([None, None, None, 1, 2]),
                    "work": rng.choice([0, 0, 0, 0.5, 2.5, 3])}  # virtual time a tick itself takes (less than the period, else 0)
        return {"mode": "th", "on": rng.choice(["eventloop", "newthread", "timeout"]), "period_ms": rng.choice([1, 2, 5, 10]),
                "dispose_after_ms": rng.choice([0, 1, 3, 7, 12, 25]), "raise_at": rng.choice([None, None, None, 0, 1, 2]),
                "dispose_in_tick": rng.choice([None, None, None, 1, 2]), "sched": th.gen_sched(rng, spurious_p=0.3, drift_p=0.3, sweep_p=0.02, stall_p=0.5),
                "catch": rng.choice([None, None, None, True, True, False]),  # wrapped in a CatchScheduler whose handler returns this
                "tick_work": rng.choice([0, 0, 0, 0.5, 1.5, 3]),  # simulated time a tick itself takes, in periods (more than 1: the tick overruns its period)
                "warm": rng.random() < 0.4}  # the scheduler has already run something: its worker thread (if it keeps one) is alive and idle

    def execute(self, sc):
        return self.exec_vt(sc) if sc["mode"] == "vt" else self.exec_th(sc)

    # ------------------------------------------------------------------ VT
    def exec_vt(self, sc):
        import reactivex as rx
        from reactivex.scheduler import CatchScheduler
        out = Outcome()
        on = sc["on"]
        w = vt.World({"vts": "vts", "test": "test", "historical": "historical", "catch": "vts", "interval": "test", "timer": "historical"}[on])
        period = sc["period"]
        work = sc.get("work", 0)
        work = work if work < period and not (on == "timer" and sc["due"] < 0) else 0
        ticks = []  # (seq, t, state)
        handled = []
        box = {}
        t0 = 100
        horizon = 100 + period * 12 + 60

        def dispose():
            d = box.get("d")
            if d is not None and "disp_ret" not in box:
                d.dispose()
                box["disp_ret"] = w.tick()
                box["disp_t"] = w.now()

        if on in ("interval", "timer"):
            src = rx.interval(float(period), scheduler=w.s) if on == "interval" else rx.timer(float(sc["due"]), float(period), scheduler=w.s)
            first = period if on == "interval" else sc["due"]

            def on_next(v):
                ticks.append((w.tick(), w.now(), v))
                if work:
                    w.s.sleep(float(work))
                if sc["dispose_in_tick"] is not None and len(ticks) - 1 == sc["dispose_in_tick"]:
                    dispose()

            w.at(t0, lambda: box.__setitem__("d", src.subscribe(on_next, scheduler=w.s)))
            raise_at = None
        else:
            first = period
            raise_at = sc["raise_at"]
            s = CatchScheduler(w.s, lambda e: handled.append(e) or True) if on == "catch" else w.s

            def action(state):
                k = len(ticks)
                ticks.append((w.tick(), w.now(), state))
                if work:
                    w.s.sleep(float(work))  # the tick takes virtual time: the next one is still due one period after this one started
                if sc["dispose_in_tick"] is not None and k == sc["dispose_in_tick"]:
                    dispose()
                if raise_at is not None and k == raise_at:
                    raise Boom()
                return (state or 0) + 1

            per = timedelta(seconds=period) if (on == "historical" and period % 2) else float(period)
            w.at(t0, lambda: box.__setitem__("d", s.schedule_periodic(per, action, 0)))
        if sc["dispose_at"] is not None:
            w.at(t0 + sc["dispose_at"], dispose, tie=sc["tie"])
        w.run(horizon)
        dispose()
        out.digest = (on, period, work, sc["dispose_at"], sc["tie"], raise_at, sc["dispose_in_tick"], len(ticks))
        if work:
            out.probes["tick_takes_time"] += 1
        out.sim_time = horizon
        out.nontrivial = len(ticks) >= 2
        out.probes["vt:" + on] += 1
        desc = "%s" % {k: v for k, v in sc.items() if k not in ("seed", "index")}

        def bad(rule, msg):
            if not out.viol:
                out.bad(rule, "%s: %s" % (desc, msg))

        # expected ticks: t0 + first + k*period, until dispose / raise / horizon
        exp = []
        k = 0
        late_grid = None
        if on == "timer" and first < 0:
            # a due time already past at subscription: tick 0 runs at once, the following ones stay on the grid due + k*period
            # (a tick that would still be in the past is pushed one period behind "now")
            late_grid, now_, dt_ = [float(t0)], float(t0), float(t0 + first)
            while now_ <= horizon:
                dt_ += period
                if dt_ <= now_:
                    dt_ = now_ + period
                late_grid.append(dt_)
                now_ = dt_
        while True:
            t = t0 + first + k * period if late_grid is None else late_grid[k]
            if t > horizon:
                break
            if sc["dispose_at"] is not None:
                dt = t0 + sc["dispose_at"]
                if t > dt or (t == dt and sc["tie"] == "early"):
                    break
                if t == dt and sc["tie"] == "late" and k == 0 and first == sc["dispose_at"] and on not in ("interval", "timer"):
                    pass
            exp.append((float(t), k))
            if raise_at is not None and k == raise_at:
                break
            if sc["dispose_in_tick"] is not None and k == sc["dispose_in_tick"]:
                break
            k += 1
        got = [(t, st) for _, t, st in ticks]
        tie_same_instant = sc["dispose_at"] is not None and any(abs(t - (t0 + sc["dispose_at"])) < 1e-9 for t, _ in exp + got) and sc["tie"] == "late"
        if got != exp:
            # a late-tie dispose at exactly a tick instant: the tick was queued first and runs; everything else is exact
            if not (tie_same_instant and (got == exp or got == exp[:-1] or got[:-1] == exp)):
                bad("ticks", "ticks (time, state) %s, expected %s" % (got[:14], exp[:14]))
        if "disp_ret" in box:
            late = [x for x in ticks if x[0] > box["disp_ret"]]
            if late:
                bad("tick-after-dispose", "a tick ran at t=%s after dispose() returned at t=%s" % (late[0][1], box["disp_t"]))
        if raise_at is not None and on != "catch":
            esc = [e for e in w.escaped if isinstance(e[3], Boom)]
            if len(ticks) > raise_at and len(esc) != 1:
                bad("raise-propagation", "tick %d raised; %d exceptions escaped the scheduler (expected 1)" % (raise_at, len(esc)))
        if on == "catch" and raise_at is not None and len(ticks) > raise_at and len(handled) != 1:
            bad("raise-propagation", "CatchScheduler handler saw %d exceptions (expected 1)" % len(handled))
        out.info = {"scenario": desc, "ticks": got[:8]}
        return out

    # ------------------------------------------------------------------ TH
    def exec_th(self, sc):
        if sc["sched"].get("sweep") and "cps" not in sc:
            return th.sweep(self.exec_th, sc)
        out = Outcome()
        holder = {}

        def factory():
            st = {"ticks": [], "inside": None, "overlap": False, "handled": []}
            holder["st"] = st

            def body(sim, shim):
                from reactivex.scheduler import CatchScheduler, EventLoopScheduler, NewThreadScheduler, TimeoutScheduler
                s = {"eventloop": EventLoopScheduler, "newthread": NewThreadScheduler, "timeout": TimeoutScheduler}[sc["on"]]()
                if sc.get("catch") is not None:
                    s = CatchScheduler(s, lambda e: st["handled"].append(e) or sc["catch"])
                period = sc["period_ms"] / 1000.0
                box = {}

                def dispose(from_tick):
                    d = box.get("d")
                    if d is not None and "disp_ret" not in st:
                        st["disp_inv_t"] = sim.now
                        st["ticks_at_dispose"] = len(st["ticks"])
                        d.dispose()
                        st["disp_ret"] = sim.tick()
                        workers = [t for t in sim.threads if t.kind == "lib" and t.state != "done"]
                        st["strict"] = from_tick or all(t.state == "blocked" and t.blocked_on != "stall" for t in workers) or st["inside"] is not None

                def action(state):
                    k = len(st["ticks"])
                    if st["inside"] is not None:
                        st["overlap"] = True
                    st["inside"] = k
                    st["ticks"].append((sim.tick(), sim.now, state, sim.current.kind))
                    sim.yield_point("tick.body")
                    if sc.get("tick_work"):
                        sim.sleep(sc["tick_work"] * period)  # the tick takes time (possibly more than a period)
                    if sc["dispose_in_tick"] is not None and k == sc["dispose_in_tick"]:
                        dispose(True)
                    st["inside"] = None
                    if sc["raise_at"] is not None and k == sc["raise_at"]:
                        raise Boom()
                    return (state or 0) + 1

                if sc.get("warm"):
                    s.schedule(lambda sch, st_=None: None)
                    sim.sleep(0.002)
                sim.mark()
                st["t0"] = sim.now
                box["d"] = s.schedule_periodic(period, action, 0)

                def disposer():
                    sim.sleep(sc["dispose_after_ms"] / 1000.0)
                    dispose(False)

                sim.spawn(disposer, "disposer", "work")

            return body

        focus = ("periodicscheduler.py", "newthreadscheduler.py", "eventloopscheduler.py", "timeoutscheduler.py") + (("catchscheduler.py", "singleassignmentdisposable.py") if sc.get("catch") is not None else ())
        sim, cps = th.explore(sc, factory, out, focus=focus, max_steps=150000)
        st = holder["st"]
        ticks = st["ticks"]
        dig = th.interleaving_digest(sim)
        out.digest = (sc["on"], sc["period_ms"], sc["dispose_after_ms"], sc["raise_at"], sc["dispose_in_tick"], dig)
        out.nontrivial = len(ticks) >= 2
        out.probes["th:" + sc["on"]] += 1
        desc = "%s cps=%s" % ({k: v for k, v in sc.items() if k not in ("seed", "index")}, cps)

        def bad(rule, msg):
            if not out.viol:
                out.bad(rule, "%s: %s" % (desc, msg))

        if sim.failure:
            bad(sim.failure[0], sim.failure[1])
        errs = [e for e in sim.thread_errors if not isinstance(e[2], Boom)]
        if errs:
            bad("thread-exception", repr(errs[0]))
        if st["overlap"]:
            bad("overlap", "two ticks ran at once")
        period_us = sc["period_ms"] * 1000
        for k, (seq, t, state, kind) in enumerate(ticks):
            if state != k:
                bad("state", "tick %d received state %r (expected %d)" % (k, state, k))
            if t < st["t0"] + (k + 1) * period_us:
                bad("early", "tick %d started %d us after scheduling, earlier than %d periods of %d us" % (k, t - st["t0"], k + 1, period_us))
            if kind == "work":
                bad("wrong-thread", "tick %d ran on a caller thread" % k)
        if sc["raise_at"] is not None and len(ticks) > sc["raise_at"] + 1:
            bad("tick-after-raise", "%d ticks ran although tick %d raised" % (len(ticks), sc["raise_at"]))
        if sc.get("catch") is not None:
            out.probes["th:catch_handler_%s" % sc["catch"]] += 1
            want = 1 if (sc["raise_at"] is not None and len(ticks) > sc["raise_at"]) else 0
            if len(st["handled"]) != want or any(not isinstance(e, Boom) for e in st["handled"]):
                bad("raise-propagation", "CatchScheduler's handler saw %r, expected %d call(s) with the exception of tick %s" % (st["handled"], want, sc["raise_at"]))
        if "disp_inv_t" in st and not sim.faults["clock_drift"] and not sim.faults["stall"] and not sc.get("tick_work") and sc["raise_at"] is None and sc["dispose_in_tick"] is None:
            # progress: by the time the disposing thread calls dispose(), all but the last of the periods that have elapsed have ticked
            # (the clock only moves with the run: 1 us per step, jumps to the next timer when every thread waits)
            # each tick costs simulated time of its own (1 us per executed line) that the scheduler does not compensate for: 300 us of
            # slack per period, far above what a tick takes and far below a period that went missing
            due = (st["disp_inv_t"] - st["t0"]) // (period_us + 300)
            if st["ticks_at_dispose"] < due - 1:
                bad("ticks-missing", "%d periods of %d us (+300 us slack each) had elapsed when dispose() was called, only %d tick(s) had started" % (due, period_us, st["ticks_at_dispose"]))
            out.probes["progress_checked"] += 1
        if "disp_ret" in st:
            late = [x for x in ticks if x[0] > st["disp_ret"]]
            allowed = 0 if st.get("strict") else 1
            if len(late) > allowed:
                bad("tick-after-dispose", "%d tick(s) started after dispose() returned (allowed %d: %s)" % (
                    len(late), allowed, "worker was blocked / inside a tick / dispose issued from a tick" if st.get("strict") else "worker may have committed to one"))
            if st.get("strict"):
                out.probes["strict_dispose_checked"] += 1
        if out.viol:
            wsc = dict(sc)
            wsc["cps"] = cps
            out.witness = wsc
        out.info = {"scenario": desc, "ticks": len(ticks)}
        return out

    def signature(self, sc, rule, msg):
        return {"rule": rule, "on": sc.get("on")}


PROP = Prop()
