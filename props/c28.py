"""C28 Virtual time runs actions in due order on a monotone clock."""
import heapq
from datetime import timedelta

from simlib import vt
from simlib.core import Outcome

from reactivex.disposable import Disposable
from reactivex.scheduler import HistoricalScheduler, VirtualTimeScheduler
from reactivex.testing import TestScheduler


class RefScheduler:
    """Independent 40-line reference: heap ordered by (due, insertion seq), jumping clock."""

    def __init__(self, test_start_extras):
        self.clock = 0.0
        self.q = []
        self.seq = 0
        self.cancelled = set()
        self.log = []
        self.running = False
        self.stopped = False
        self.extras = test_start_extras

    def schedule(self, due, aid):
        self.seq += 1
        heapq.heappush(self.q, (due, self.seq, aid))

    def run_until(self, limit, body):
        self.running, self.stopped = True, False
        while self.q and not self.stopped and (limit is None or self.q[0][0] <= limit):
            due, _, aid = heapq.heappop(self.q)
            if due > self.clock:
                self.clock = due
            if aid in self.cancelled:
                continue
            if aid is not None:
                self.log.append((aid, self.clock))
                body(aid)
        self.running = False

    def start(self, body):
        if self.extras:
            for t in (100.0, 200.0, 1000.0):
                self.schedule(t, None)
        self.run_until(None, body)

    def advance_to(self, t, body):
        if t < self.clock:
            return "range"
        if t == self.clock:
            return None
        self.run_until(t, body)
        self.clock = t
        return None


class Prop:
    id = "C28"
    level = "exploration"
    engine = "VT (+TH: one scenario in 250 has two controlled threads driving the same scheduler)"
    quick_runs = 250000
    thorough_runs = 3000000
    rule = ("seeded histories of schedule_absolute/schedule_relative/schedule calls (past, present and future due times, ties), optionally a run of 101-160 strictly advancing actions, actions that "
            "schedule further actions, cancel others and call stop(), interleaved with advance_to/advance_by/sleep/start, on "
            "VirtualTimeScheduler, TestScheduler and HistoricalScheduler (datetime clock); invocation order, clock at every invocation, "
            "clock after every driver call, raised range errors and never-run cancelled actions are compared with an independent reference "
            "scheduler (heap ordered by (due, insertion seq)). Distinct = (clock kind, driver shape, invocation log); non-trivial = at least "
            "three actions ran and at least one tie or nested schedule occurred. One scenario in 250 runs under the TH engine: 2-5 pre-scheduled actions "
            "(some scheduling a further one), two controlled threads calling start() / advance_to() / schedule_absolute() on the same scheduler with 1-3 forced pre-emptions "
            "(or a single-pre-emption sweep): no action twice or at once, due-time order, clock never behind a due time nor backwards, and "
            "nothing lost when both only call start().")
    assumptions = ["fewer than 100 actions share an instant (the anti-spin clock bump is C29's subject)", "zero-length advances are not generated (advance_to(now) is documented as a no-op)",
                   "TestScheduler.start() is modelled with its three built-in create/subscribe/dispose actions at 100/200/1000"]
    stubs = []

    def gen_action(self, rng, ids, depth):
        aid = len(ids)
        ids.append(aid)
        kind = rng.choice(["abs", "abs", "rel", "rel", "imm"])
        a = {"id": aid, "kind": kind, "t": rng.choice([0, 5, 10, 10, 20, 30, 50, 50, 80, 120, 300]), "children": [], "cancel": [], "stop": rng.random() < 0.05}
        if depth < 3:
            for _ in range(rng.choice([0, 0, 0, 1, 1, 2])):
                a["children"].append(self.gen_action(rng, ids, depth + 1))
        return a

    def generate(self, rng, tier):
        if rng.random() < 0.004:
            return self.gen_th(rng)
        ids = []
        driver = []
        for _ in range(rng.randrange(1, 7)):
            r = rng.random()
            if r < 0.5:
                driver.append(["sched", self.gen_action(rng, ids, 0)])
            elif r < 0.65:
                driver.append(["advance_to", rng.choice([5, 10, 20, 50, 100, 250, 40])])
            elif r < 0.8:
                driver.append(["advance_by", rng.choice([5, 10, 20, 50, 100])])
            elif r < 0.88:
                driver.append(["sleep", rng.choice([5, 10, 50])])
            elif r < 0.95:
                driver.append(["start"])
            elif ids:
                driver.append(["cancel", rng.choice(ids)])
        if rng.random() < 0.12:
            # a long run of ordinary, strictly advancing actions (more than the scheduler's anti-spin threshold of 100) ahead of
            # the rest: whatever the scheduler counts must not leak into how later ties are run
            n, t0, dt = rng.choice([101, 110, 130, 160]), rng.choice([0, 1, 3]), rng.choice([0.25, 0.5, 1])
            series = [{"id": len(ids) + i, "kind": "abs", "t": t0 + i * dt, "children": [], "cancel": [], "stop": False} for i in range(n)]
            ids.extend(a["id"] for a in series)
            # first: the clock is still 0, every due time of the series lies ahead; no sleep(), which would turn the part of the
            # series it jumps over into one instant of more than 100 late actions (the anti-spin bump, C29's subject)
            # (the same goes for stop(): an advance_to cut short by it still moves the clock to its target)
            driver = [["series", series]] + [d for d in driver if d[0] != "sleep"]

            def nostop(a):
                a["stop"] = False
                for c in a["children"]:
                    nostop(c)
            for d in driver:
                if d[0] == "sched":
                    nostop(d[1])
        driver.append(["start"])
        # actions cancelling other actions
        def walk(a):
            if ids and rng.random() < 0.2:
                a["cancel"].append(rng.choice(ids))
            for c in a["children"]:
                walk(c)
        for d in driver:
            if d[0] == "sched":
                walk(d[1])
        return {"clock": rng.choice(["vts", "test", "historical"]), "driver": driver}

    # ---- real
    def run_real(self, sc):
        kind = sc["clock"]
        s = {"vts": lambda: VirtualTimeScheduler(0.0), "test": TestScheduler, "historical": HistoricalScheduler}[kind]()
        hist = kind == "historical"

        def now():
            c = s.clock
            return (c - vt.UTC0).total_seconds() if hist else float(c)

        log, clocks, disps, errors = [], [], {}, []

        def sched(a, sch):
            def action(scheduler, state=None):
                log.append((a["id"], now()))
                for c in a["children"]:
                    sched(c, scheduler)
                for x in a["cancel"]:
                    if x in disps:
                        disps[x].dispose()
                if a["stop"]:
                    s.stop()
                return Disposable()

            if a["kind"] == "abs":
                d = sch.schedule_absolute(vt.UTC0 + timedelta(seconds=a["t"]) if hist else float(a["t"]), action)
            elif a["kind"] == "rel":
                d = sch.schedule_relative(timedelta(seconds=a["t"]) if (hist and a["id"] % 2) else float(a["t"]), action)
            else:
                d = sch.schedule(action)
            disps[a["id"]] = d

        for d in sc["driver"]:
            try:
                if d[0] == "sched":
                    sched(d[1], s)
                elif d[0] == "series":
                    for a in d[1]:
                        sched(a, s)
                elif d[0] == "advance_to":
                    s.advance_to(vt.UTC0 + timedelta(seconds=d[1]) if hist else float(d[1]))
                elif d[0] == "advance_by":
                    s.advance_by(float(d[1]))
                elif d[0] == "sleep":
                    s.sleep(float(d[1]))
                elif d[0] == "start":
                    s.start()
                elif d[0] == "cancel":
                    if d[1] in disps:
                        disps[d[1]].dispose()
                errors.append(None)
            except Exception as e:
                errors.append(type(e).__name__)
            clocks.append(now())
        return log, clocks, errors

    # ---- reference
    def run_ref(self, sc):
        ref = RefScheduler(sc["clock"] == "test")
        specs = {}
        errors, clocks = [], []

        def sched(a):
            specs[a["id"]] = a
            if a["kind"] == "abs":
                ref.schedule(float(a["t"]), a["id"])
            elif a["kind"] == "rel":
                ref.schedule(ref.clock + a["t"], a["id"])
            else:
                ref.schedule(ref.clock, a["id"])

        def body(aid):
            a = specs[aid]
            for c in a["children"]:
                sched(c)
            for x in a["cancel"]:
                if x in specs:
                    ref.cancelled.add(x)
            if a["stop"]:
                ref.stopped = True

        for d in sc["driver"]:
            err = None
            if d[0] == "sched":
                sched(d[1])
            elif d[0] == "series":
                for a in d[1]:
                    sched(a)
            elif d[0] == "advance_to":
                err = ref.advance_to(float(d[1]), body)
            elif d[0] == "advance_by":
                err = ref.advance_to(ref.clock + d[1], body)
            elif d[0] == "sleep":
                ref.clock += d[1]
            elif d[0] == "start":
                ref.start(body)
            elif d[0] == "cancel":
                if d[1] in specs:
                    ref.cancelled.add(d[1])
            errors.append("ArgumentOutOfRangeException" if err == "range" else None)
            clocks.append(ref.clock)
        return ref.log, clocks, errors

    # ------------------------------------------------------------------ two threads driving one scheduler (TH engine)
    def gen_th(self, rng):
        from simlib import th
        n = rng.randrange(2, 6)
        acts = [{"id": i, "t": rng.choice([0, 5, 10, 10, 20, 20, 50]), "child": rng.choice([None, None, 0, 5, 30])} for i in range(n)]
        drv = lambda: [rng.choice([["start"], ["start"], ["advance_to", rng.choice([10, 20, 60])], ["sched", rng.choice([0, 5, 15, 40])]]) for _ in range(rng.choice([1, 1, 2]))]  # noqa: E731
        return {"mode": "th", "clock": rng.choice(["vts", "historical"]), "acts": acts, "drivers": [drv(), drv()],
                "sched": th.gen_sched(rng, ks=(1, 2, 2, 3), sweep_p=0.1, opcode_p=0.3)}

    def exec_th(self, sc):
        from datetime import timedelta
        from simlib import th
        if sc["sched"].get("sweep") and "cps" not in sc:
            return th.sweep(self.exec_th, sc)
        out = Outcome()
        holder = {}

        def factory():
            st = holder["st"] = {"log": [], "inside": 0, "overlap": False, "done": 0}

            def body(sim, shim):
                from reactivex.internal.exceptions import ArgumentOutOfRangeException
                from reactivex.scheduler import HistoricalScheduler, VirtualTimeScheduler
                hist = sc["clock"] == "historical"
                s = HistoricalScheduler(vt.UTC0) if hist else VirtualTimeScheduler(0.0)
                now = (lambda: (s.clock - vt.UTC0).total_seconds()) if hist else (lambda: float(s.clock))
                due_of = (lambda t: vt.UTC0 + timedelta(seconds=t)) if hist else float
                nid = [len(sc["acts"])]

                def mk(aid, due, child):
                    def action(sch, state=None):
                        st["inside"] += 1
                        if st["inside"] > 1:
                            st["overlap"] = True
                        st["log"].append((sim.tick(), aid, due, now(), sim.current.name))
                        sim.yield_point("action.body")
                        if child is not None:
                            cid = nid[0]
                            nid[0] += 1
                            s.schedule_relative(timedelta(seconds=child) if hist else float(child), mk(cid, now() + child, None))
                        st["inside"] -= 1
                    return action

                for a in sc["acts"]:
                    s.schedule_absolute(due_of(a["t"]), mk(a["id"], float(a["t"]), a["child"]))
                sim.mark()

                def driver(ops_):
                    def run():
                        for op in ops_:
                            if op[0] == "start":
                                s.start()
                            elif op[0] == "sched":
                                # scheduled from this thread while the other one may be running the queue (the scheduler's own lock
                                # is what makes that legal); it runs at its due time or, if that is past, at the current clock
                                cid = nid[0]
                                nid[0] += 1
                                s.schedule_absolute(due_of(op[1]), mk(cid, float(op[1]), None))
                            else:
                                try:
                                    s.advance_to(due_of(op[1]))
                                except ArgumentOutOfRangeException:
                                    pass  # the clock is already past the target (the other thread, or an earlier call, got there)
                        st["done"] += 1
                    return run

                for i, ops_ in enumerate(sc["drivers"]):
                    sim.spawn(driver(ops_), "drv%d" % i, "work")
                st["now"] = now

            return body

        sim, cps = th.explore(sc, factory, out, focus=("virtualtimescheduler.py", "historicalscheduler.py"))
        st = holder["st"]
        log = st["log"]
        out.digest = ("th", sc["clock"], repr(sc["acts"]), repr(sc["drivers"]), th.interleaving_digest(sim))
        out.nontrivial = len(log) >= 2 and sim.faults["preempt"] > 0
        out.probes["th:two_driver_threads"] += 1
        desc = "two threads drive one %s: actions=%s drivers=%s cps=%s" % (sc["clock"], sc["acts"], sc["drivers"], cps)

        def bad(rule, msg):
            if not out.viol:
                out.bad(rule, "%s: %s; runs (action, due, clock, thread): %s" % (desc, msg, [e[1:] for e in log]))

        if sim.failure:
            bad(sim.failure[0], sim.failure[1])
        if sim.thread_errors:
            bad("thread-exception", repr(sim.thread_errors[0]))
        if st["overlap"]:
            bad("overlap", "two actions ran at once")
        ids = [e[1] for e in log]
        if len(set(ids)) != len(ids):
            bad("ran-twice", "an action ran twice")
        clk = None
        for seq, aid, due, c, tname in log:
            if c < due - 1e-9:
                bad("clock", "action %s ran at clock %s before its due time %s" % (aid, c, due))
            if clk is not None and c < clk - 1e-9:
                bad("clock", "the clock moved backwards (%s after %s)" % (c, clk))
            clk = c
        dues = [e[2] for e in log]
        late_sched = any(op[0] == "sched" for d in sc["drivers"] for op in d)  # (an action scheduled into the past of a running clock runs late)
        if not late_sched and any(b < a - 1e-9 for a, b in zip(dues, dues[1:])):
            bad("order", "actions did not run in due-time order")
        if not sim.failure and st["done"] == 2 and all(op[0] == "start" for d in sc["drivers"] for op in d):
            expect = len(sc["acts"]) + sum(1 for a in sc["acts"] if a["child"] is not None)
            if len(log) != expect:
                bad("lost-action", "%d of %d actions ran although start() returned on both threads" % (len(log), expect))
        if out.viol:
            wsc = dict(sc)
            wsc["cps"] = cps
            out.witness = wsc
        out.info = {"scenario": desc}
        return out

    def execute(self, sc):
        if sc.get("mode") == "th":
            return self.exec_th(sc)
        out = Outcome()
        got = self.run_real(sc)
        want = self.run_ref(sc)
        log = got[0]
        out.digest = (sc["clock"], tuple(d[0] for d in sc["driver"]), tuple(log))
        out.sim_time = got[1][-1] if got[1] else 0.0
        times = [t for _, t in log]
        out.nontrivial = len(log) >= 3 and (len(set(times)) < len(times) or any(d[0] == "sched" and d[1]["children"] for d in sc["driver"]))
        if len(set(times)) < len(times):
            out.probes["ties"] += 1
        if any(e for e in want[2]):
            out.probes["range_error"] += 1
        out.probes["clock:" + sc["clock"]] += 1
        if any(times[i] > times[i + 1] for i in range(len(times) - 1)):
            out.bad("clock-backwards", "clock at invocation went backwards: %s" % log)
        if got[0] != want[0]:
            out.bad("order", "clock=%s invocation log %s, reference %s" % (sc["clock"], got[0], want[0]))
        elif got[1] != want[1]:
            out.bad("clock-after-call", "clock=%s clocks after driver calls %s, reference %s (driver %s)" % (sc["clock"], got[1], want[1], [d[0] for d in sc["driver"]]))
        elif got[2] != want[2]:
            out.bad("errors", "clock=%s raised %s, reference %s" % (sc["clock"], got[2], want[2]))
        out.info = {"clock": sc["clock"], "log": log[:10]}
        return out


PROP = Prop()
