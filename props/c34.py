"""C34 Real-time schedulers never run an action early or after cancellation (TH engine)."""
from simlib import th
from simlib.core import Outcome

KINDS = ["timeout", "newthread", "threadpool", "eventloop"]


class Work:
    def __init__(self, sc):
        self.sc = sc
        self.acts = {}
        self.imm = None

    def body(self, sim, shim):
        from datetime import timedelta

        from reactivex.disposable import Disposable
        from reactivex.internal.exceptions import WouldBlockException
        from reactivex.scheduler import EventLoopScheduler, ImmediateScheduler, NewThreadScheduler, ThreadPoolScheduler, TimeoutScheduler

        sc = self.sc
        kind = sc["kind"]
        if kind == "immediate":
            s = ImmediateScheduler()
            res = []
            for d in sc["delays"]:
                ran = []
                try:
                    s.schedule_relative(d / 1000.0, lambda sch, st=None: ran.append(sim.tick()) or Disposable()) if d is not None else \
                        s.schedule(lambda sch, st=None: ran.append(sim.tick()) or Disposable())
                    res.append(("ok", len(ran), sim.current.name))
                except WouldBlockException:
                    res.append(("wouldblock", len(ran), sim.current.name))
            self.imm = res
            return
        s = {"timeout": TimeoutScheduler, "newthread": NewThreadScheduler, "threadpool": lambda: ThreadPoolScheduler(3), "eventloop": EventLoopScheduler}[kind]()
        disps = {}
        acts = self.acts
        sim.mark()
        base_us, base_dt = sim.now, sim.utcnow()  # absolute due times are taken from one base instant: identical due times occur
        for a in sc["actions"]:
            rec = acts[a["id"]] = {"id": a["id"], "due": (base_us if a["how"] == "abs" else sim.now) + a["ms"] * 1000, "start_t": None, "start": None, "thread": None, "cancel_ret_t": None, "runs": 0}

            def action(sch, st=None, rec=rec):
                rec["runs"] += 1
                rec["start"] = sim.tick()
                rec["start_t"] = sim.now
                rec["thread"] = sim.current.kind
                sim.yield_point("action.body")
                return Disposable()

            if a["how"] == "rel":
                disps[a["id"]] = s.schedule_relative(a["ms"] / 1000.0, action)
            elif a["how"] == "abs":
                due = base_dt + timedelta(milliseconds=a["ms"])
                if a.get("tz") is not None:
                    from datetime import timezone
                    due = due.astimezone(timezone(timedelta(hours=a["tz"])))  # the same instant, different wall-clock fields
                disps[a["id"]] = s.schedule_absolute(due, action)
            else:
                rec["due"] = sim.now
                disps[a["id"]] = s.schedule(action)

        def canceller():
            for c in sc["cancels"]:
                sim.sleep(c["after_ms"] / 1000.0)
                d = disps.get(c["id"])
                if d is not None:
                    d.dispose()
                    if acts[c["id"]]["cancel_ret_t"] is None:
                        acts[c["id"]]["cancel_ret_t"] = sim.now

        sim.spawn(canceller, "canceller", "work")


class Prop:
    id = "C34"
    level = "exploration"
    engine = "TH (controlled threads: baton passing, line-level pre-emption points, simulated locks/timers/clock)"
    quick_runs = 16000
    thorough_runs = 300000
    chunk = 100
    time_unit = "simulated seconds"
    rule = ("seeded sets of 1-4 relative / absolute (aware datetimes, also in zones other than UTC) / immediate schedules (delays 0-50 ms, one in eight an hour or days long or already past) on TimeoutScheduler, NewThreadScheduler, "
            "ThreadPoolScheduler (simulated executor) and EventLoopScheduler, with a separate controlled thread cancelling some of them at "
            "seeded simulated instants; 0-3 forced pre-emptions (site-first sampling over a dry run), spurious wake-ups and clock drift. "
            "Checked on the simulated clock: no action starts before its due time; an action whose dispose() returned strictly before its "
            "due time never starts; each action at most once and never on the scheduling thread. ImmediateScheduler (single thread): "
            "the action has run when schedule returns, a positive delay raises WouldBlockException without running it. Distinct = "
            "(scheduler, actions, cancels, context-switch sequence); non-trivial = a cancel landed before a due time or a timed action ran.")
    assumptions = ["threading.Timer / Condition.wait timeouts / ThreadPoolExecutor are simulated: they fire exactly at their simulated deadline (never early), so an early start can only come from the scheduler's own arithmetic"]
    stubs = ["threading.Lock/Condition/Event/Thread/Timer, concurrent.futures.ThreadPoolExecutor (simulated)", "wall clock -> simulated clock"]
    real = ["reactivex/scheduler/timeoutscheduler.py, newthreadscheduler.py, threadpoolscheduler.py, eventloopscheduler.py, immediatescheduler.py, scheduler.py"]

    def generate(self, rng, tier):
        if rng.random() < 0.1:
            return {"kind": "immediate", "delays": [rng.choice([None, 0, 0, 1, 5]) for _ in range(rng.randrange(1, 4))], "sched": {"seed": rng.getrandbits(32), "k": 0}}
        n = rng.randrange(1, 5)
        acts = [{"id": i, "how": rng.choice(["rel", "abs", "abs", "imm"]), "ms": rng.choice([0, 1, 5, 10, 10, 20, 50] * 3 + [-5, 3600000, 86400050, 90061001, 172800007]),  # also long (hours, days) and past-due delays: simulated time is free
                 "tz": rng.choice([None, None, -5, 3, 5.5])} for i in range(n)]  # abs: the same instant written in another time zone
        cancels = [{"id": rng.randrange(n), "after_ms": rng.choice([0, 1, 2, 4, 5, 9, 10, 19, 30])} for _ in range(rng.randrange(0, 4))]
        return {"kind": rng.choice(KINDS), "actions": acts, "cancels": cancels, "sched": th.gen_sched(rng, spurious_p=0.3, drift_p=0.4, sweep_p=0.02, stall_p=0.3)}

    def execute(self, sc):
        if sc["sched"].get("sweep") and "cps" not in sc:
            return th.sweep(self.execute, sc)
        out = Outcome()
        holder = {}

        def factory():
            w = Work(sc)
            holder["w"] = w
            return w.body

        sim, cps = th.explore(sc, factory, out, focus=("timeoutscheduler.py", "newthreadscheduler.py", "threadpoolscheduler.py", "eventloopscheduler.py", "scheduleditem.py"))
        w = holder["w"]
        dig = th.interleaving_digest(sim)
        desc = "%s cps=%s" % ({k: v for k, v in sc.items() if k not in ("seed", "index")}, cps)

        def bad(rule, msg):
            if not out.viol:
                out.bad(rule, "%s: %s" % (desc, msg))

        out.probes["kind:" + sc["kind"]] += 1
        if sim.failure:
            bad(sim.failure[0], sim.failure[1])
        if sim.thread_errors:
            bad("thread-exception", repr(sim.thread_errors[0]))
        if sc["kind"] == "immediate":
            out.digest = ("immediate", tuple(sc["delays"]))
            out.nontrivial = True
            for d, r in zip(sc["delays"], w.imm or []):
                positive = d is not None and d > 0
                if positive and (r[0] != "wouldblock" or r[1] != 0):
                    bad("immediate", "ImmediateScheduler.schedule_relative(%s ms) -> %s, ran %d times (expected WouldBlockException, not run)" % (d, r[0], r[1]))
                if not positive and (r[0] != "ok" or r[1] != 1):
                    bad("immediate", "ImmediateScheduler with delay %s -> %s, action ran %d times before schedule returned (expected exactly once)" % (d, r[0], r[1]))
        else:
            acts = list(w.acts.values())
            out.digest = (sc["kind"], repr(sc["actions"]), repr(sc["cancels"]), dig)
            strict = 0
            for a in acts:
                if a["runs"] > 1:
                    bad("ran-twice", "action %s ran %d times" % (a["id"], a["runs"]))
                if a["start_t"] is not None and a["start_t"] < a["due"]:
                    bad("early", "action %s started at %d us but was due at %d us" % (a["id"], a["start_t"], a["due"]))
                if a["thread"] == "work":
                    bad("wrong-thread", "action %s ran on a caller thread" % a["id"])
                if a["cancel_ret_t"] is not None and a["cancel_ret_t"] < a["due"]:
                    strict += 1
                    if a["start"] is not None:
                        bad("ran-after-cancel", "action %s: dispose() returned at %d us, before its due time %d us, yet it started at %d us" % (
                            a["id"], a["cancel_ret_t"], a["due"], a["start_t"]))
            if strict:
                out.probes["cancel_before_due"] += strict
            out.nontrivial = strict > 0 or any(a["start"] is not None and a["due"] > th.BASE_US for a in acts)
            if not sim.failure:
                lost = [a["id"] for a in acts if a["start"] is None and a["cancel_ret_t"] is None]
                if lost:
                    bad("lost-action", "actions %s never ran although never cancelled" % lost)
        if out.viol:
            wsc = dict(sc)
            wsc["cps"] = cps
            out.witness = wsc
        out.info = {"scenario": {k: v for k, v in sc.items() if k not in ("seed", "index", "sched")}, "cps": cps}
        return out

    def signature(self, sc, rule, msg):
        return {"rule": rule, "kind": sc.get("kind")}


PROP = Prop()
