"""C26 disposables: concurrent call histories, linearizability against a sequential model (TH engine)."""
from simlib import disp


class Prop:
    id = "C26"
    level = "exploration"
    engine = "TH (controlled threads: baton passing, line-level pre-emption points, simulated locks)"
    quick_runs = 30000
    thorough_runs = 400000
    chunk = 100
    kinds = "composite,serial,single,multiple".split(",")
    time_unit = "simulated microseconds (no timers in this workload)"
    rule = ("seeded call histories on one %s object per run: 1 thread x 2-7 calls (sequential histories) or 2-3 controlled threads x 1-3 "
            "calls with 0-3 forced pre-emptions placed by site-first sampling over a dry run; items are counting disposables, 35%% of "
            "them falsy (__len__ == 0). Each call's observation = (result or exception, set of items it disposed); the concurrent "
            "history must have a linearisation consistent with the invoke/return order whose sequential-model observations match, and no "
            "item may be disposed twice. Distinct = (kind, scripts, context-switch sequence); non-trivial = more context switches than "
            "threads." % "/".join(kinds))
    assumptions = ["pre-emption at line/return granularity of repo code and at every simulated lock operation", "an item is handed to a container at most once per history"]
    stubs = ["threading.RLock/Lock (simulated, owned by the scheduler)"]
    real = ["reactivex/disposable/*.py"]

    def generate(self, rng, tier):
        return disp.gen(rng, self.kinds)

    def execute(self, sc):
        return disp.execute(sc, self.id)

    def signature(self, sc, rule, msg):
        return {"rule": rule, "kind": sc.get("kind")}


PROP = Prop()
