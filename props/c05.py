"""C05 Element-wise operators match their list semantics."""
from simlib import chain, models


class Prop:
    id = "C05"
    level = "exploration"
    engine = "VT (virtual-time discrete-event simulation on the repo's TestScheduler / VirtualTimeScheduler / HistoricalScheduler)"
    quick_runs = 200000
    thorough_runs = 3000000
    thorough_budget = 900.0
    rule = ("seeded chains of 1-3 element-wise operators (catalogue rows %s) over one generated cold/hot/sync timeline "
            "(0-7 elements incl. falsy values, bursts, completion/error/no terminal) on three clock kinds; each run is compared, "
            "value and virtual time, with the Python list model; 8%% of the runs use a subscriber that hands the next value to the source (a Subject) "
            "from inside every on_next it receives (re-entrant emission through the operators). Distinct = distinct (operator chain, observed output, source kind); "
            "non-trivial = at least two notifications observed.") % (sorted(models.ELEMENTWISE),)
    assumptions = ["callbacks are total deterministic functions from the harness library",
                   "sources are conforming (at most one terminal); non-conforming sources belong to C01",
                   "mostly seeded input generation against a model: the simulated dimensions are the clock kind, the error position and the source kind"]
    stubs = []
    names = sorted(models.ELEMENTWISE)

    def generate(self, rng, tier):
        return chain.gen(rng, self.names, tier, feedback_p=0.08)

    def execute(self, sc):
        return chain.execute(sc, models.ELEMENTWISE)

    def signature(self, sc, rule, msg):
        return {"rule": rule, "ops": sorted(set(n["op"] for n in sc.get("chain", [])))}


PROP = Prop()
