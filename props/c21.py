"""C21 BehaviorSubject call histories against the sequential reference model."""
from simlib import subjects, subjects_th


class Prop:
    id = "C21"
    level = "exploration"
    engine = "VT+TH (sequential call histories in virtual time; a share of the runs has concurrent callers under controlled threads)"
    th_share = 0.02
    quick_runs = 250000
    thorough_runs = 3000000
    kind = "behavior"
    rule = ("seeded call histories (2-12 calls: subscribe with/without error handler, unsubscribe, on_next with falsy and ordinary values, "
            "on_error, on_completed, dispose%s) with scripted re-entrant subscribe/unsubscribe performed from inside observer callbacks, "
            "run against a real BehaviorSubject and against a sequential reference model; per-observer notification logs and the exceptions raised by "
            "each call must match (an observer unsubscribed re-entrantly after the call was made but before its turn may or may not get that "
            "one notification). Distinct = (configuration, call kinds, per-observer log lengths); non-trivial = at least two notifications "
            "delivered. 2%% of the runs use concurrent callers instead (TH engine): a producer thread emitting 1..m and 1-2 threads subscribing / "
            "unsubscribing meanwhile, 1-3 forced pre-emptions in the subject's code; every subscriber must see a contiguous run of values that "
            "starts at a value current (retained) at some moment of its subscribe() call, and the terminal notification if it stayed.") % ("; every buffer_size in {0..4, None}, windows shorter/longer/equal to ages, virtual-time advances, scheduler drained after each call" if "behavior" == "replay" else "")
    assumptions = ["re-entrant emission is excluded (call order is undefined for it)", "after dispose(), subscribing surfaces DisposedException: raised from subscribe() without an error handler, delivered to on_error with one"]
    stubs = []

    def generate(self, rng, tier):
        if rng.random() < self.th_share:
            return subjects_th.gen(rng, self.kind)
        return subjects.gen_history(rng, self.kind)

    def valid(self, sc):
        return subjects_th.valid(sc) if sc.get("mode") == "th" else True

    def execute(self, sc):
        if sc.get("mode") == "th":
            return subjects_th.execute(sc)
        return subjects.execute(sc)

    def signature(self, sc, rule, msg):
        return {"rule": rule, "kind": sc.get("kind")}


PROP = Prop()
