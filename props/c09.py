"""C09 Exceptions raised by user callbacks are delivered as on_error."""
from simlib import catalog, pipe, vt
from simlib.core import Outcome


class Prop:
    id = "C09"
    level = "fault_enumeration"
    engine = "VT"
    quick_runs = 15000
    thorough_runs = 300000
    chunk = 40
    rule = ("per seeded pipeline (depth 1-3 over hot, cold and sync sources; every catalogue row with a callback is the root of some "
            "scenario) an undisturbed run counts the invocations of every callback site; then one run per (site, k) raises InjectedFault (a plain Exception subclass, or one that is also a StopIteration / KeyError / ValueError / TypeError / AttributeError / IndexError / RuntimeError) at "
            "the k-th invocation. The fault must reach the root recorder as on_error(InjectedFault), must not escape into the emitting "
            "source or out of the scheduler, no callback may run at a later instant, the grammar holds and every source subscription is "
            "released at the failure instant. Sites below an operator that legitimately handles errors (catch, retry, "
            "on_error_resume_next, materialize) are not faulted. Distinct = (operators, site, k, root kinds); non-trivial = the fault fired.")
    assumptions = ["only InjectedFault counts; finally-actions and iterators are not faulted (not 'user functions' of the statement)",
                   "hot emitters (sim sources, which do not catch) log what escapes into them"]
    stubs = []
    cb_rows = sorted(n for n, r in catalog.ROWS.items() if "cb" in r.tags and n not in ("finally_action", "do_finally"))

    def generate(self, rng, tier):
        depth = rng.choice([0, 0, 1, 1, 2])
        ctx = catalog.Ctx(rng, hot_p=0.6, falsy_p=0.3, sync_p=0.1)
        node = catalog.gen_program(ctx, depth, max_sources=3) if depth else ctx.new_source()
        name = rng.choice(self.cb_rows)
        r = catalog.ROWS[name]
        ins = [node]
        if r.arity != 1:
            ins.append(ctx.new_source())
            if rng.random() < 0.5:
                ins.reverse()
        ctx.nid = max(ctx.nid, 10)
        node = {"op": name, "id": ctx.next_id(), "a": r.gen(ctx), "in": ins}
        if rng.random() < 0.3:
            t = rng.choice(["take", "skip", "map", "share", "start_with", "distinct_until_changed", "take_last"])
            node = {"op": t, "id": ctx.next_id(), "a": catalog.ROWS[t].gen(ctx), "in": [node]}
        return {"clock": rng.choice(["test", "test", "historical", "vts"]), "sources": ctx.sources, "program": node,
                "sub_t": rng.choice([200, 205]), "horizon": 2500, "drop_children_on_terminal": True,
                "exc": rng.choice([None, None, None, "stop_iteration", "stop_iteration", "key_error", "value_error", "type_error", "attribute_error", "index_error", "runtime_error"])}

    def fault_sites(self, prog):
        """sites whose path to the root only crosses error-transparent operators"""
        out = []

        def walk(node, ok):
            if not isinstance(node, dict):
                return
            if ok:
                for k, v in sorted(node.get("a", {}).items()):
                    if isinstance(v, dict) and "k" in v and node["op"] not in ("finally_action", "do_finally") and k != "fin":
                        out.append("%s.%s" % (node["id"], k))
            # below a time-shifting operator the root's terminal may be delivered later than it was decided,
            # which makes "the fault fired before the pipeline ended" unobservable: not faulted
            below = ok and node["op"] not in catalog.ERROR_OPAQUE and "time" not in catalog.ROWS[node["op"]].tags
            for x in node["in"]:
                walk(x, below)

        walk(prog, True)
        return out

    def execute(self, sc):
        if "faults" in sc:
            return self.one(sc, Outcome())
        out = Outcome()
        base = pipe.Run(sc)
        sites = self.fault_sites(sc["program"])
        out.digests = []
        out.evals = 1
        out.sim_time = sc["horizon"]
        for site in sites:
            n = base.w.counts.get(site, 0)
            for k in range(min(n, 4)):
                one = dict(sc)
                one["faults"] = [{"site": site, "k": k}]
                o = Outcome()
                self.one(one, o)
                out.evals += 1
                out.sim_time += sc["horizon"]
                out.faults.update(o.faults)
                out.probes.update(o.probes)
                out.digests.append((o.digest, o.nontrivial))
                if o.viol and not out.viol:
                    out.viol = o.viol
                    out.witness = one
        out.info = {"ops": catalog.ops_of(sc["program"]), "sites": sites, "invocations": {s: base.w.counts.get(s, 0) for s in sites}}
        return out

    def one(self, sc, out):
        f = sc["faults"][0]
        nid = f["site"].split(".")[0]
        path = _path_to(sc["program"], nid) or []
        taps = {n: [] for n in path}
        run = pipe.Run(sc, taps=taps)
        w, rec = run.w, run.rec
        ops = catalog.ops_of(sc["program"])
        out.digest = (tuple(ops), f["site"], f["k"], rec.kinds())
        out.sim_time = sc["horizon"]
        if not w.fired:
            out.probes["fault_not_reached"] += 1
            return out
        out.nontrivial = True
        out.faults["callback_raise"] += 1
        fseq, fsite, fk = w.fired[0]
        ft = [c[1] for c in w.calls if c[0] == fseq][0]
        desc = "fault=%s@%d program=%s" % (fsite, fk, ops)
        esc = run.injected_escapes()
        if esc:
            out.bad("escaped", "%s: InjectedFault escaped into %s at t=%s instead of reaching on_error" % (desc, esc[0][2], esc[0][1]))
            return out
        if run.sub_error is not None and isinstance(run.sub_error, vt.InjectedFault):
            out.bad("escaped", "%s: InjectedFault propagated out of subscribe()" % desc)
            return out
        run.grammar(out)
        if out.viol:
            return out
        term = rec.terminal()
        if (term is not None and term[0] < fseq) or (rec.disp_ret_seq is not None and rec.disp_ret_seq < fseq):
            out.probes["fault_after_root_terminal"] += 1
            return out
        # Was the output of the operator owning the callback, and of every operator between it and the
        # subscriber, still live (subscribed, not terminated, not unsubscribed) when the fault fired?
        node_term = None
        for n in path:
            tap = taps[n]
            live = [e[4] for e in tap if e[2] == "S" and e[0] < fseq]
            if not live:
                if n == nid:
                    out.probes["fault_while_subscribing"] += 1  # callback invoked before the node's subscribe() returned
                continue
            mine = [e for e in tap if e[4] == live[-1] and e[2] in "CED"]
            if mine and mine[0][0] < fseq:
                out.probes["fault_after_downstream_ended"] += 1  # nothing left to deliver to
                return out
            if n == nid and len(live) > 1:
                # the node is subscribed more than once (re-subscribed by repeat / while_do / retry while an earlier subscription
                # is still alive, e.g. kept by an open window): the callback may have served an older subscription
                for older in live[:-1]:
                    evs = [e for e in tap if e[4] == older and e[2] in "CED"]
                    if evs and evs[0][0] > fseq and evs[0][2] == "E" and isinstance(evs[0][3], vt.InjectedFault):
                        out.probes["fault_in_an_older_subscription_of_the_node"] += 1  # delivered there; that one is not on the path to the root
                        return out
            if n == nid:
                node_term = mine[0] if mine else None
                if node_term is not None and node_term[2] == "D" and node_term[1] == ft:
                    # the consumer unsubscribed in the very instant of the fault, before an error that the operator hands to
                    # the scheduler (using / defer factories -> throw) could be delivered: nothing left to deliver to
                    out.probes["consumer_unsubscribed_at_fault_instant"] += 1
                    return out
                if node_term is None or node_term[2] != "E" or not isinstance(node_term[3], vt.InjectedFault):
                    out.bad("not-delivered", "%s: the operator's output saw %r after the fault, expected on_error(InjectedFault)" % (
                        desc, "".join(e[2] for e in tap if e[4] == live[-1] and e[0] > fseq)))
                    return out
        if term is None or term[2] != "E" or not isinstance(term[3], vt.InjectedFault):
            out.bad("not-delivered", "%s: root recorder saw %r (terminal %r), expected on_error(InjectedFault)" % (desc, rec.kinds(), term and term[2:]))
            return out
        out.probes["delivered"] += 1
        out.probes["delivered:" + [n["op"] for n in _all_nodes(sc["program"]) if n["id"] == nid][0]] += 1
        late = [c for c in w.calls if c[0] > fseq and c[1] > ft]
        if late:
            out.bad("callback-after-failure", "%s: callback %s ran at t=%s after the failure at t=%s" % (desc, late[0][2], late[0][1], ft))
            return out
        for src in w.sources.values():
            for s in src.subs:
                if s.open() or s.disp_t > max(ft, term[1]):
                    out.bad("leak-after-failure", "%s: source %s subscription %s not released at the failure instant t=%s" % (desc, src.sid, s.as_tuple(), ft))
                    return out
        return out

    signature = staticmethod(pipe.signature)


def _all_nodes(node):
    if isinstance(node, dict):
        yield node
        for x in node["in"]:
            yield from _all_nodes(x)


def _path_to(node, nid):
    """node ids from `nid` up to the root"""
    if not isinstance(node, dict):
        return None
    if node["id"] == nid:
        return [nid]
    for x in node["in"]:
        p = _path_to(x, nid)
        if p:
            return p + [node["id"]]
    return None


PROP = Prop()
