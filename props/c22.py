"""C22 ReplaySubject call histories against the sequential reference model."""
from simlib import subjects


class Prop:
    id = "C22"
    level = "exploration"
    engine = "VT"
    quick_runs = 200000
    thorough_runs = 3000000
    kind = "replay"
    rule = ("seeded call histories (2-12 calls: subscribe with/without error handler, unsubscribe, on_next with falsy and ordinary values, "
            "on_error, on_completed, dispose%s) with scripted re-entrant subscribe/unsubscribe performed from inside observer callbacks, "
            "run against a real ReplaySubject and against a sequential reference model; per-observer notification logs and the exceptions raised by "
            "each call must match (an observer unsubscribed re-entrantly after the call was made but before its turn may or may not get that "
            "one notification). Distinct = (configuration, call kinds, per-observer log lengths); non-trivial = at least two notifications "
            "delivered.") % ("; every buffer_size in {0..4, None}, windows shorter/longer/equal to ages, virtual-time advances, scheduler drained after each call" if "replay" == "replay" else "")
    assumptions = ["re-entrant emission is excluded (call order is undefined for it)", "after dispose(), subscribing surfaces DisposedException: raised from subscribe() without an error handler, delivered to on_error with one"]
    stubs = []

    def generate(self, rng, tier):
        return subjects.gen_history(rng, self.kind)

    def execute(self, sc):
        return subjects.execute(sc)

    def signature(self, sc, rule, msg):
        return {"rule": rule, "kind": sc.get("kind")}


PROP = Prop()
