"""C44 An operator function can be applied to many sources independently."""
from simlib import catalog, vt
from simlib.core import Outcome

from reactivex import Observable
from reactivex.observable import ConnectableObservable


class Captured:
    """What `hole.pipe(op1, op2, ...)` (optionally followed by [index]) produced."""

    def __init__(self, operators):
        self.operators = operators
        self.index = None

    def __getitem__(self, i):
        self.index = i
        return self

    def apply(self, src):
        r = src.pipe(*self.operators)
        return r if self.index is None else r[self.index]


class Hole(Observable):
    """Placeholder source: captures the operator function objects a catalogue row creates."""

    def pipe(self, *operators):
        return Captured(operators)


def rows():
    out = []
    for n, r in sorted(catalog.ROWS.items()):
        if "stateful" in r.tags or "explicit_subject" in r.tags or n.startswith("rx.") or r.arity not in (1, 2, -1):
            continue
        out.append(n)
    return out


class Prop:
    id = "C44"
    level = "exploration"
    engine = "VT (+TH: one scenario in 250 applies one operator object from 2-3 controlled threads at once)"
    quick_runs = 40000
    thorough_runs = 1500000
    rule = ("for a seeded catalogue row the operator function object(s) it creates are captured once (through a placeholder source whose "
            "pipe() records them) and applied to 2-3 independent sources whose subscriptions, unsubscriptions and connect()/disconnect "
            "calls are interleaved at seeded virtual times; a twin world builds fresh operator objects per source with the same history. "
            "Per-subscriber notifications (values, times) and every source's subscription intervals must be identical. Distinct = (row, "
            "history shape, first subscriber's kinds); non-trivial = at least two applications each delivered a notification. One scenario in 250 runs under the TH "
            "engine: one operator object applied by 2-3 controlled threads at once, each to a source of its own, with a single-pre-emption sweep over the "
            "application code; every result must deliver what a fresh operator on the same source delivers.")
    assumptions = ["stateless deterministic callbacks; explicitly shared subject instances (multicast(subject=...)) are the user's own sharing and are excluded",
                   "rows whose build does not go through source.pipe(...) (factory forms rx.*) are not operator functions and are listed as uncovered"]
    stubs = []
    names = rows()

    def generate(self, rng, tier):
        if rng.random() < 0.004:
            return self.gen_th(rng)
        ctx = catalog.Ctx(rng, hot_p=0.4, falsy_p=0.2, sync_p=0.1)
        name = rng.choice(self.names) if rng.random() < 0.6 else rng.choice(
            ["publish_ref_count", "replay_ref_count", "publish_value_ref_count", "share", "publish", "replay", "publish_value",
             "publish_mapper", "replay_mapper", "multicast_factory_mapper", "publish_value_mapper"])
        r = catalog.ROWS[name]
        napps = rng.choice([2, 2, 3])
        apps = []
        for _ in range(napps):
            src = ctx.new_source()
            subs = sorted(rng.choice(range(200, 600, 10)) for _ in range(rng.choice([1, 2, 2, 3])))
            app = {"src": src, "subs": [[t, rng.choice([None, None, t + rng.choice([0, 10, 50, 150])])] for t in subs]}
            if "connectable" in r.tags:
                cts = sorted(rng.choice(range(190, 650, 10)) for _ in range(rng.choice([1, 1, 2])))
                app["connect"] = [[t, rng.choice([None, t + rng.choice([10, 100, 300])])] for t in cts]
            apps.append(app)
        others = [ctx.new_source() for _ in range(0 if r.arity == 1 else (1 if r.arity == 2 else rng.choice([1, 2])))]
        a = r.gen(ctx)
        return {"clock": "test", "sources": ctx.sources, "row": name, "a": a, "apps": apps, "others": others, "horizon": 2500}

    def run(self, sc, shared):
        w = vt.World(sc["clock"])
        vt.make_sources(w, sc["sources"])
        r = catalog.ROWS[sc["row"]]
        others = [w.sources[s] for s in sc["others"]]
        cap = None
        if shared:
            cap = r.build(w, "n1", sc["a"], [Hole()] + others)
            if not isinstance(cap, Captured):
                return None
        recs = []
        for ai, app in enumerate(sc["apps"]):
            src = w.sources[app["src"]]
            obs = cap.apply(src) if shared else r.build(w, "n1", sc["a"], [src] + others)
            arecs = []
            for si, (t, tu) in enumerate(app["subs"]):
                rec = vt.Recorder(w, "a%d.%d" % (ai, si))
                arecs.append(rec)
                w.at(t, (lambda rec=rec, obs=obs: _sub(rec, obs)))
                if tu is not None:
                    w.at(tu, rec.dispose)
            if isinstance(obs, ConnectableObservable):
                for t, td in app.get("connect", []):
                    box = []
                    w.at(t, (lambda obs=obs, box=box: box.append(obs.connect(w.s))))
                    if td is not None:
                        w.at(td, (lambda box=box: box and box[0].dispose()))
            recs.append(arecs)
        w.run(sc["horizon"])
        return w, recs

    # ------------------------------------------------------------------ concurrent application (TH engine)
    TH_OPS = ["map", "filter", "take", "skip", "start_with", "scan", "pairwise", "to_list", "distinct", "publish", "share", "replay", "take_last", "delay0"]

    @staticmethod
    def th_op(name):
        from reactivex import operators as ops
        return {"map": lambda: ops.map(lambda v: ("m", v)), "filter": lambda: ops.filter(lambda v: v % 2 == 0), "take": lambda: ops.take(3),
                "skip": lambda: ops.skip(1), "start_with": lambda: ops.start_with(-1), "scan": lambda: ops.scan(lambda a, v: a + v, 0),
                "pairwise": ops.pairwise, "to_list": ops.to_list, "distinct": ops.distinct, "publish": ops.publish, "share": ops.share,
                "replay": lambda: ops.replay(buffer_size=2), "take_last": lambda: ops.take_last(2), "delay0": lambda: ops.take_while(lambda v: True)}[name]()

    def gen_th(self, rng):
        from simlib import th
        return {"mode": "th", "op": rng.choice(self.TH_OPS), "threads": rng.choice([2, 2, 3]), "n": rng.randrange(2, 5),
                "sched": {"seed": rng.getrandbits(32), "k": 1, "sweep": True, "spurious": 0.0, "drift": 0.0, **({"opcodes": True} if rng.random() < 0.3 else {})}}

    def exec_th(self, sc):
        from simlib import th
        if sc["sched"].get("sweep") and "cps" not in sc:
            return th.sweep(self.exec_th, sc, cap=50)
        out = Outcome()
        holder = {}

        def factory():
            st = holder["st"] = {"res": {}, "got": {}, "want": {}}

            def body(sim, shim):
                import reactivex as rx
                from reactivex.scheduler import ImmediateScheduler
                op = self.th_op(sc["op"])  # ONE operator function object
                srcs = [rx.from_iterable([i * 100 + k for k in range(sc["n"])], ImmediateScheduler()) for i in range(sc["threads"])]
                sim.mark()

                def applier(i):
                    def run():
                        st["res"][i] = srcs[i].pipe(op)  # applied concurrently, each thread to a source of its own
                    return run

                for i in range(sc["threads"]):
                    sim.spawn(applier(i), "app%d" % i, "work")
                for _ in range(50):
                    if len(st["res"]) == sc["threads"]:
                        break
                    sim.sleep(0.001)

                def collect(o):
                    log = []
                    o.subscribe(lambda v: log.append(("N", vt.vkey(v))), lambda e: log.append(("E", type(e).__name__)), lambda: log.append(("C",)))
                    if isinstance(o, ConnectableObservable):
                        o.connect()
                    return log

                for i in sorted(st["res"]):
                    st["got"][i] = collect(st["res"][i])
                    st["want"][i] = collect(srcs[i].pipe(self.th_op(sc["op"])))  # a fresh operator for this source

            return body

        sim, cps = th.explore(sc, factory, out, focus=("internal/curry.py", "reactivex/operators/", "observable/observable.py", "reactivex/pipe.py"))
        st = holder["st"]
        out.digest = ("th", sc["op"], sc["threads"], sc["n"], th.interleaving_digest(sim))
        out.nontrivial = sim.faults["preempt"] > 0 and len(st["got"]) >= 2
        out.probes["th:concurrent_application"] += 1
        desc = "operator %s applied by %d threads at once, each to a source of its own (%d elements) cps=%s" % (sc["op"], sc["threads"], sc["n"], cps)
        if sim.failure:
            out.bad(sim.failure[0], "%s: %s" % (desc, sim.failure[1]))
        elif sim.thread_errors:
            out.bad("thread-exception", "%s: %r" % (desc, sim.thread_errors[0]))
        elif len(st["res"]) != sc["threads"]:
            out.bad("application-did-not-return", "%s: %d applications returned" % (desc, len(st["res"])))
        else:
            for i in sorted(st["got"]):
                if st["got"][i] != st["want"][i]:
                    out.bad("shared-operator-differs", "%s: application %d delivers %s, a fresh operator on the same source %s" % (desc, i, st["got"][i][:8], st["want"][i][:8]))
                    break
        if out.viol:
            wsc = dict(sc)
            wsc["cps"] = cps
            out.witness = wsc
        out.info = {"scenario": desc}
        return out

    def execute(self, sc):
        if sc.get("mode") == "th":
            return self.exec_th(sc)
        out = Outcome()
        out.sim_time = 2 * sc["horizon"]
        a = self.run(sc, True)
        if a is None:
            out.digest = ("uncovered", sc["row"])
            out.probes["uncovered:" + sc["row"]] += 1
            return out
        b = self.run(sc, False)
        wa, ra = a
        wb, rb = b
        out.digest = (sc["row"], tuple(len(x["subs"]) for x in sc["apps"]), ra[0][0].kinds())
        out.nontrivial = sum(1 for app in ra if any(r.events for r in app)) >= 2
        out.probes["row:" + sc["row"]] += 1
        out.evals = 2
        for ai in range(len(ra)):
            for si in range(len(ra[ai])):
                x, y = ra[ai][si].timed(), rb[ai][si].timed()
                if x != y:
                    out.bad("shared-operator-differs", "row=%s args=%s: application %d subscriber %d saw %s with the shared operator object, %s with a fresh one" % (
                        sc["row"], sc["a"], ai, si, x[:8], y[:8]))
                    return out
        for sid in wa.sources:
            x = [(s.sub_t, s.disp_t) for s in wa.sources[sid].subs]
            y = [(s.sub_t, s.disp_t) for s in wb.sources[sid].subs]
            if x != y:
                out.bad("source-intervals-differ", "row=%s args=%s: source %s subscription intervals %s with the shared operator object, %s with fresh ones" % (
                    sc["row"], sc["a"], sid, x, y))
                return out
        out.info = {"row": sc["row"], "apps": len(sc["apps"]), "first": ra[0][0].kinds()}
        return out

    def signature(self, sc, rule, msg):
        return {"rule": rule, "row": sc.get("row")}


def _sub(rec, obs):
    try:
        rec.subscribe(obs)
    except Exception as e:
        rec.events.append((rec.w.tick(), rec.w.now(), "E", e))


PROP = Prop()
