"""C44 An operator function can be applied to many sources independently."""
from simlib import catalog, vt
from simlib.core import Outcome

from reactivex import Observable
from reactivex.observable import ConnectableObservable


class Captured:
    """What `hole.pipe(op1, op2, ...)` (optionally followed by [index]) produced."""

    def __init__(self, operators):
        self.operators = operators
        self.index = None

    def __getitem__(self, i):
        self.index = i
        return self

    def apply(self, src):
        r = src.pipe(*self.operators)
        return r if self.index is None else r[self.index]


class Hole(Observable):
    """Placeholder source: captures the operator function objects a catalogue row creates."""

    def pipe(self, *operators):
        return Captured(operators)


def rows():
    out = []
    for n, r in sorted(catalog.ROWS.items()):
        if "stateful" in r.tags or "explicit_subject" in r.tags or n.startswith("rx.") or r.arity not in (1, 2, -1):
            continue
        out.append(n)
    return out


class Prop:
    id = "C44"
    level = "exploration"
    engine = "VT"
    quick_runs = 40000
    thorough_runs = 1500000
    rule = ("for a seeded catalogue row the operator function object(s) it creates are captured once (through a placeholder source whose "
            "pipe() records them) and applied to 2-3 independent sources whose subscriptions, unsubscriptions and connect()/disconnect "
            "calls are interleaved at seeded virtual times; a twin world builds fresh operator objects per source with the same history. "
            "Per-subscriber notifications (values, times) and every source's subscription intervals must be identical. Distinct = (row, "
            "history shape, first subscriber's kinds); non-trivial = at least two applications each delivered a notification.")
    assumptions = ["stateless deterministic callbacks; explicitly shared subject instances (multicast(subject=...)) are the user's own sharing and are excluded",
                   "rows whose build does not go through source.pipe(...) (factory forms rx.*) are not operator functions and are listed as uncovered"]
    stubs = []
    names = rows()

    def generate(self, rng, tier):
        ctx = catalog.Ctx(rng, hot_p=0.4, falsy_p=0.2, sync_p=0.1)
        name = rng.choice(self.names) if rng.random() < 0.6 else rng.choice(
            ["publish_ref_count", "replay_ref_count", "publish_value_ref_count", "share", "publish", "replay", "publish_value",
             "publish_mapper", "replay_mapper", "multicast_factory_mapper", "publish_value_mapper"])
        r = catalog.ROWS[name]
        napps = rng.choice([2, 2, 3])
        apps = []
        for _ in range(napps):
            src = ctx.new_source()
            subs = sorted(rng.choice(range(200, 600, 10)) for _ in range(rng.choice([1, 2, 2, 3])))
            app = {"src": src, "subs": [[t, rng.choice([None, None, t + rng.choice([0, 10, 50, 150])])] for t in subs]}
            if "connectable" in r.tags:
                cts = sorted(rng.choice(range(190, 650, 10)) for _ in range(rng.choice([1, 1, 2])))
                app["connect"] = [[t, rng.choice([None, t + rng.choice([10, 100, 300])])] for t in cts]
            apps.append(app)
        others = [ctx.new_source() for _ in range(0 if r.arity == 1 else (1 if r.arity == 2 else rng.choice([1, 2])))]
        a = r.gen(ctx)
        return {"clock": "test", "sources": ctx.sources, "row": name, "a": a, "apps": apps, "others": others, "horizon": 2500}

    def run(self, sc, shared):
        w = vt.World(sc["clock"])
        vt.make_sources(w, sc["sources"])
        r = catalog.ROWS[sc["row"]]
        others = [w.sources[s] for s in sc["others"]]
        cap = None
        if shared:
            cap = r.build(w, "n1", sc["a"], [Hole()] + others)
            if not isinstance(cap, Captured):
                return None
        recs = []
        for ai, app in enumerate(sc["apps"]):
            src = w.sources[app["src"]]
            obs = cap.apply(src) if shared else r.build(w, "n1", sc["a"], [src] + others)
            arecs = []
            for si, (t, tu) in enumerate(app["subs"]):
                rec = vt.Recorder(w, "a%d.%d" % (ai, si))
                arecs.append(rec)
                w.at(t, (lambda rec=rec, obs=obs: _sub(rec, obs)))
                if tu is not None:
                    w.at(tu, rec.dispose)
            if isinstance(obs, ConnectableObservable):
                for t, td in app.get("connect", []):
                    box = []
                    w.at(t, (lambda obs=obs, box=box: box.append(obs.connect(w.s))))
                    if td is not None:
                        w.at(td, (lambda box=box: box and box[0].dispose()))
            recs.append(arecs)
        w.run(sc["horizon"])
        return w, recs

    def execute(self, sc):
        out = Outcome()
        out.sim_time = 2 * sc["horizon"]
        a = self.run(sc, True)
        if a is None:
            out.digest = ("uncovered", sc["row"])
            out.probes["uncovered:" + sc["row"]] += 1
            return out
        b = self.run(sc, False)
        wa, ra = a
        wb, rb = b
        out.digest = (sc["row"], tuple(len(x["subs"]) for x in sc["apps"]), ra[0][0].kinds())
        out.nontrivial = sum(1 for app in ra if any(r.events for r in app)) >= 2
        out.probes["row:" + sc["row"]] += 1
        out.evals = 2
        for ai in range(len(ra)):
            for si in range(len(ra[ai])):
                x, y = ra[ai][si].timed(), rb[ai][si].timed()
                if x != y:
                    out.bad("shared-operator-differs", "row=%s args=%s: application %d subscriber %d saw %s with the shared operator object, %s with a fresh one" % (
                        sc["row"], sc["a"], ai, si, x[:8], y[:8]))
                    return out
        for sid in wa.sources:
            x = [(s.sub_t, s.disp_t) for s in wa.sources[sid].subs]
            y = [(s.sub_t, s.disp_t) for s in wb.sources[sid].subs]
            if x != y:
                out.bad("source-intervals-differ", "row=%s args=%s: source %s subscription intervals %s with the shared operator object, %s with fresh ones" % (
                    sc["row"], sc["a"], sid, x, y))
                return out
        out.info = {"row": sc["row"], "apps": len(sc["apps"]), "first": ra[0][0].kinds()}
        return out

    def signature(self, sc, rule, msg):
        return {"rule": rule, "row": sc.get("row")}


def _sub(rec, obs):
    try:
        rec.subscribe(obs)
    except Exception as e:
        rec.events.append((rec.w.tick(), rec.w.now(), "E", e))


PROP = Prop()
