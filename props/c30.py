"""C30 Trampoline scheduling is same-thread, FIFO and never nested (TH engine)."""
from simlib import th
from simlib.core import Outcome


class Work:
    def __init__(self, sc):
        self.sc = sc
        self.acts = {}
        self.running = {}  # trampoline key -> action id currently running
        self.overlap = None

    def body(self, sim, shim):
        from reactivex.disposable import Disposable
        from reactivex.scheduler import CurrentThreadScheduler, TrampolineScheduler

        sc = self.sc
        mode = sc["mode"]
        shared = TrampolineScheduler() if mode == "shared" else (CurrentThreadScheduler() if mode == "current_instance" else None)
        acts = self.acts
        disps = {}

        def sched_for():
            return shared if shared is not None else CurrentThreadScheduler.singleton()

        def tramp_key():
            return "shared" if mode == "shared" else sim.current.name

        def drain_idle(key):
            """is the thread draining this trampoline provably not committed to an action: blocked, or inside an action body"""
            if self.running.get(key) is not None:
                return True
            works = [t for t in sim.threads if t.kind == "work" and t.state not in ("done",) and t is not sim.current]
            return all(t.state == "blocked" and t.blocked_on != "stall" for t in works)

        def do(spec, sch, parent):
            aid = spec["id"]
            if spec["kind"] == "cancel":
                d = disps.get(spec["target"])
                if d is not None and spec["target"] in acts:
                    d.dispose()
                    rec = acts[spec["target"]]
                    if rec["cancel_ret"] is None:
                        rec["cancel_ret"] = sim.tick()
                        same = rec["sched_thread"] == sim.current.name and mode != "shared"
                        rec["cancel_strict"] = same or (parent is not None and mode == "shared" and self.running.get("shared") == parent) or \
                            (mode == "shared" and drain_idle("shared"))
                return
            if spec["kind"] == "sleep":
                sim.sleep(spec["ms"] / 1000.0)
                return
            delay = 0 if spec["kind"] == "imm" else max(0, spec["ms"]) * 1000
            exact = spec["kind"] == "abs"  # an absolute due time counted from the run's base instant: two of them can be EQUAL
            rec = acts[aid] = {"id": aid, "kind": spec["kind"], "inv": sim.tick(), "ret": None, "due": (base[0] + delay) if exact else sim.now + delay, "due_hi": None, "exact": exact,
                               "start": None, "end": None, "start_t": None, "thread": None, "runs": 0, "parent": parent,
                               "sched_thread": sim.current.name, "key": tramp_key(), "cancel_ret": None, "cancel_strict": False}

            def action(scheduler, state=None):
                key = rec["key"] if mode != "shared" else "shared"
                rec["runs"] += 1
                if self.running.get(key) is not None:
                    self.overlap = (self.running[key], aid)
                self.running[key] = aid
                rec["start"] = sim.tick()
                rec["start_t"] = sim.now
                rec["thread"] = sim.current.name
                sim.yield_point("action.body")
                for c in spec.get("children", []):
                    do(c, scheduler, aid)
                sim.yield_point("action.body2")
                rec["end"] = sim.tick()
                self.running[key] = None
                return Disposable()

            if spec["kind"] == "imm":
                disps[aid] = sch.schedule(action)
            elif exact:
                from datetime import timedelta
                disps[aid] = sch.schedule_absolute(base[1] + timedelta(milliseconds=max(0, spec["ms"])), action)
            else:
                disps[aid] = sch.schedule_relative(spec["ms"] / 1000.0, action)
            rec["due_hi"] = rec["due"] if exact else sim.now + delay
            rec["ret"] = sim.tick()

        sim.mark()
        base = (sim.now, sim.utcnow())

        def worker(ops):
            def run():
                for spec in ops:
                    do(spec, sched_for(), None)
            return run

        for i, ops in enumerate(sc["scripts"]):
            sim.spawn(worker(ops), "w%d" % i, "work")


class Prop:
    id = "C30"
    level = "exploration"
    engine = "TH (controlled threads: baton passing, line-level pre-emption points, simulated locks/conditions/clock)"
    quick_runs = 20000
    thorough_runs = 300000
    chunk = 100
    time_unit = "simulated seconds"
    rule = ("1-2 controlled threads run seeded trees of nested schedule / schedule_relative / schedule_absolute (due times counted from one base instant, so that equal ones occur) / cancel calls on (a) the current-thread "
            "scheduler singleton, (b) one CurrentThreadScheduler instance used by both threads (per-thread trampolines) and (c) one "
            "TrampolineScheduler shared by both threads, with 0-3 forced pre-emptions (site-first sampling over a dry run), spurious "
            "Condition wake-ups and clock drift. Checked: one action at a time per trampoline; a nested schedule starts only after its "
            "parent returned; an action submitted before another with an earlier due time (or both immediate, or both with the same absolute due time) starts first; never "
            "before its due time; a same-thread cancel (or a cross-thread cancel that returned while the draining thread was blocked or "
            "inside another action) means the action never starts; current-thread actions run on the scheduling thread; every action "
            "whose schedule call returned and that was not cancelled has run at quiescence. Distinct = (mode, scripts, context-switch "
            "sequence); non-trivial = at least two actions ran and a forced pre-emption or fault fired.")
    assumptions = ["commit-window rule for cross-thread cancellation on the shared trampoline (DESIGN.md section 9)", "actions do not raise"]
    stubs = ["threading.Lock/Condition (simulated)", "wall clock -> simulated clock"]
    real = ["reactivex/scheduler/trampoline.py", "reactivex/scheduler/trampolinescheduler.py", "reactivex/scheduler/currentthreadscheduler.py"]

    def generate(self, rng, tier):
        nid = [0]

        def node(depth):
            k = rng.choice(["imm", "imm", "imm", "rel", "abs"])
            spec = {"id": nid[0], "kind": k, "ms": rng.choice([0, 1, 5, 10, 30, -5]), "children": []}  # (a negative relative time means "now")
            nid[0] += 1
            if depth < 3:
                for _ in range(rng.choice([0, 0, 1, 1, 2])):
                    if rng.random() < 0.2 and nid[0] > 0:
                        spec["children"].append({"id": -1, "kind": "cancel", "target": rng.randrange(0, nid[0] + 2)})
                    else:
                        spec["children"].append(node(depth + 1))
            return spec

        mode = rng.choice(["singleton", "current_instance", "shared", "shared", "shared"])
        scripts = []
        for _ in range(rng.choice([1, 2, 2])):
            ops = []
            for _ in range(rng.randrange(1, 4)):
                r = rng.random()
                if r < 0.7:
                    ops.append(node(0))
                elif r < 0.85:
                    ops.append({"id": -1, "kind": "sleep", "ms": rng.choice([1, 5, 7, 20])})
                else:
                    ops.append({"id": -1, "kind": "cancel", "target": rng.randrange(0, nid[0] + 2)})
            scripts.append(ops)
        return {"mode": mode, "scripts": scripts, "sched": th.gen_sched(rng, spurious_p=0.3, drift_p=0.4, sweep_p=0.02, stall_p=0.3)}

    def execute(self, sc):
        if sc["sched"].get("sweep") and "cps" not in sc:
            return th.sweep(self.execute, sc)
        out = Outcome()
        holder = {}

        def factory():
            w = Work(sc)
            holder["w"] = w
            return w.body

        sim, cps = th.explore(sc, factory, out, focus=("trampoline.py", "trampolinescheduler.py", "currentthreadscheduler.py"))
        w = holder["w"]
        acts = list(w.acts.values())
        ran = [a for a in acts if a["start"] is not None]
        dig = th.interleaving_digest(sim)
        out.digest = (sc["mode"], repr(sc["scripts"]), dig)
        out.nontrivial = len(ran) >= 2 and (sim.faults["preempt"] + sim.faults["spurious_wakeup"] + sim.faults["clock_drift"] > 0)
        out.probes["mode:" + sc["mode"]] += 1
        desc = "mode=%s scripts=%s cps=%s sched=%s" % (sc["mode"], sc["scripts"], cps, sc["sched"])

        def bad(rule, msg):
            if not out.viol:
                out.bad(rule, "%s: %s" % (desc, msg))

        if sim.failure:
            bad(sim.failure[0], sim.failure[1])
        if sim.thread_errors:
            bad("thread-exception", repr(sim.thread_errors[0]))
        if w.overlap:
            bad("nested-run", "action %s started while action %s was running on the same trampoline" % (w.overlap[1], w.overlap[0]))
        byid = w.acts
        for a in acts:
            if a["runs"] > 1:
                bad("ran-twice", "action %s ran %d times" % (a["id"], a["runs"]))
            if a["start"] is None:
                continue
            if sc["mode"] != "shared" and a["thread"] != a["sched_thread"]:
                bad("wrong-thread", "action %s scheduled on %s ran on %s" % (a["id"], a["sched_thread"], a["thread"]))
            if a["start_t"] < a["due"]:
                bad("early", "action %s started at %d us, due no earlier than %d us" % (a["id"], a["start_t"], a["due"]))
            p = byid.get(a["parent"]) if a["parent"] is not None else None
            if p is not None and p["key"] == a["key"] and p["end"] is not None and a["start"] < p["end"]:
                bad("nested-run", "action %s scheduled from inside action %s started before that action returned" % (a["id"], p["id"]))
            if a["cancel_ret"] is not None and a["cancel_strict"] and a["start"] > a["cancel_ret"]:
                bad("ran-after-cancel", "action %s started after its cancel returned" % a["id"])
        for a in ran:
            for b in ran:
                if a is b or a["key"] != b["key"] or a["ret"] is None or a["ret"] >= b["inv"]:
                    continue
                both_imm = a["kind"] == "imm" and b["kind"] == "imm"
                tie = a.get("exact") and b.get("exact") and a["due"] == b["due"]  # equal due times: first scheduled first
                if (a["due_hi"] < b["due"] or both_imm or tie) and a["start"] > b["start"]:
                    bad("order", "action %s (submitted first, due %d) started after action %s (due %d)" % (a["id"], a["due"], b["id"], b["due"]))
        if not sim.failure:
            lost = [a["id"] for a in acts if a["ret"] is not None and a["start"] is None and a["cancel_ret"] is None]
            if lost:
                bad("lost-action", "actions %s: schedule returned, never cancelled, not run at quiescence" % lost)
        if out.viol:
            wsc = dict(sc)
            wsc["cps"] = cps
            out.witness = wsc
        out.info = {"mode": sc["mode"], "scripts": sc["scripts"], "cps": cps, "ran": [a["id"] for a in sorted(ran, key=lambda a: a["start"])]}
        return out

    def signature(self, sc, rule, msg):
        return {"rule": rule, "mode": sc.get("mode")}


PROP = Prop()
