"""C32 observe_on delivers every notification once, in order, serially (TH engine)."""
from simlib import th, vt
from simlib.core import Outcome


class Work:
    def __init__(self, sc):
        self.sc = sc
        self.delivered = []  # (seq, kind, value, thread kind)
        self.inside = None
        self.overlap = None
        self.after_raise = []
        self.raised = False

    def body(self, sim, shim):
        from reactivex import operators as ops
        from reactivex.scheduler import EventLoopScheduler, NewThreadScheduler
        from reactivex.subject import ReplaySubject, Subject

        sc = self.sc
        s = EventLoopScheduler() if sc["scheduler"] == "eventloop" else NewThreadScheduler()
        raise_at = sc.get("raise_at")

        def enter(kind, v=None):
            if self.inside is not None:
                self.overlap = (self.inside, sim.current.name)
            self.inside = sim.current.name
            k = len(self.delivered)
            if self.raised:
                self.after_raise.append(kind)
            self.delivered.append((sim.tick(), kind, v, sim.current.kind))
            sim.yield_point("deliver.body")
            sim.yield_point("deliver.body2")
            self.inside = None
            if raise_at is not None and k == raise_at:
                self.raised = True
                raise vt.InjectedFault("subscriber")

        if sc["via"] == "observe_on":
            src = Subject()
            out = src.pipe(ops.observe_on(s))
        else:
            src = ReplaySubject(sc.get("buffer_size"), None, s)
            out = src
        late = sc.get("subscribe_after", 0) if sc["via"] == "replay" else 0

        def subscribe():
            # optionally with a subscribe-time scheduler of its own (an immediate / current-thread one): deliveries still belong on
            # the scheduler observe_on / the subject was given
            from reactivex.scheduler import CurrentThreadScheduler, ImmediateScheduler
            ss = {None: None, "immediate": ImmediateScheduler(), "current": CurrentThreadScheduler()}[sc.get("sub_sched")]
            out.subscribe(lambda v: enter("N", v), lambda e: enter("E"), lambda: enter("C"), scheduler=ss)

        if not late:
            subscribe()
        sim.mark()

        def producer():
            for i, ev in enumerate(sc["events"]):
                if late and i == late:
                    subscribe()
                if ev[0] == "sleep":
                    sim.sleep(ev[1] / 1000.0)
                elif ev[0] == "N":
                    src.on_next(ev[1])
                elif ev[0] == "C":
                    src.on_completed()
                else:
                    src.on_error(vt.SourceError("x"))
            if late and late >= len(sc["events"]):
                subscribe()

        sim.spawn(producer, "producer", "work")


class Prop:
    id = "C32"
    level = "exploration"
    engine = "TH (controlled threads: baton passing, line-level pre-emption points, simulated locks/conditions/clock)"
    quick_runs = 14000
    thorough_runs = 300000
    chunk = 100
    time_unit = "simulated seconds"
    rule = ("a controlled producer thread emits a seeded sequence (0-6 elements, optional sleeps, completion / error / none) into "
            "observe_on(EventLoopScheduler | NewThreadScheduler), or into a ReplaySubject whose scheduled observers deliver on such a "
            "scheduler (subscriber before or in the middle of the sequence), with 0-3 forced pre-emptions (site-first sampling over a dry "
            "run) and spurious wake-ups; optionally the k-th delivery raises. Checked at quiescence: delivered == received (exactly once, "
            "in order; for a late replay subscriber the retained suffix), never two deliveries at once, deliveries on scheduler threads, "
            "nothing delivered after a delivery raised, no deadlock. Distinct = (scenario, context-switch sequence); non-trivial = at "
            "least two deliveries and one forced pre-emption.")
    assumptions = ["the unlocked queue append of the scheduled observer is exercised at line granularity (a switch inside one bytecode line is out of reach)"]
    stubs = ["threading.RLock/Lock/Condition/Thread/Event (simulated)", "wall clock -> simulated clock"]
    real = ["reactivex/observer/scheduledobserver.py", "reactivex/observer/observeonobserver.py", "reactivex/operators/_observeon.py", "reactivex/subject/replaysubject.py",
            "reactivex/scheduler/eventloopscheduler.py", "reactivex/scheduler/newthreadscheduler.py"]

    def generate(self, rng, tier):
        n = rng.randrange(0, 7)
        ev = []
        for i in range(n):
            ev.append(["N", i])
            if rng.random() < 0.25:
                ev.append(["sleep", rng.choice([1, 5, 20])])
        t = rng.choice(["C", "C", "E", None])
        if t:
            ev.append([t])
        via = rng.choice(["observe_on", "observe_on", "replay"])
        sc = {"via": via, "scheduler": rng.choice(["eventloop", "eventloop", "newthread"]), "events": ev, "sub_sched": rng.choice([None, None, "immediate", "current"]),
              "sched": th.gen_sched(rng, spurious_p=0.3, sweep_p=0.02, stall_p=0.3)}
        if via == "replay":
            sc["buffer_size"] = rng.choice([None, None, 1, 2])
            sc["subscribe_after"] = rng.choice([0, 0, 1, 2, 3])
        if rng.random() < 0.2 and n:
            sc["raise_at"] = rng.randrange(0, n)
        return sc

    def expected(self, sc):
        """what a subscriber must receive with no fault"""
        evs = [e for e in sc["events"]]
        if sc["via"] == "observe_on" or not sc.get("subscribe_after"):
            return [(e[0], e[1] if e[0] == "N" else None) for e in evs if e[0] != "sleep"]
        late = sc["subscribe_after"]
        before = [e for e in evs[:late] if e[0] != "sleep"]
        after = [e for e in evs[late:] if e[0] != "sleep"]
        vals = [e for e in before if e[0] == "N"]
        term = [e for e in before if e[0] in "CE"]
        n = sc.get("buffer_size")
        if n is not None:
            vals = vals[max(0, len(vals) - n):]
        out = vals + term + ([] if term else after)
        return [(e[0], e[1] if e[0] == "N" else None) for e in out]

    def execute(self, sc):
        if sc["sched"].get("sweep") and "cps" not in sc:
            return th.sweep(self.execute, sc)
        out = Outcome()
        holder = {}

        def factory():
            w = Work(sc)
            holder["w"] = w
            return w.body

        sim, cps = th.explore(sc, factory, out, focus=("scheduledobserver.py", "observeonobserver.py", "replaysubject.py"))
        w = holder["w"]
        got = [(k, v) for _, k, v, _ in w.delivered]
        dig = th.interleaving_digest(sim)
        out.digest = (repr(sc["events"]), sc["via"], sc["scheduler"], sc.get("raise_at"), dig)
        out.nontrivial = len(got) >= 2 and sim.faults["preempt"] > 0
        out.probes["via:%s:%s" % (sc["via"], sc["scheduler"])] += 1
        desc = "%s cps=%s" % ({k: v for k, v in sc.items() if k not in ("seed", "index")}, cps)

        def bad(rule, msg):
            if not out.viol:
                out.bad(rule, "%s: %s" % (desc, msg))

        if sim.failure:
            bad(sim.failure[0], sim.failure[1])
        errs = [e for e in sim.thread_errors if not isinstance(e[2], vt.InjectedFault)]
        if errs:
            bad("thread-exception", repr(errs[0]))
        if w.overlap:
            bad("overlap", "two deliveries at once (threads %s and %s)" % w.overlap)
        if any(k != "lib" for _, _, _, k in w.delivered):
            bad("wrong-thread", "a delivery ran on a caller thread")
        want = self.expected(sc)
        # grammar: nothing after the terminal
        cut = next((i for i, e in enumerate(want) if e[0] in "CE"), None)
        if cut is not None:
            want = want[:cut + 1]
        if sc.get("raise_at") is not None and sc["raise_at"] < len(want):
            out.faults["delivery_raise"] += 1
            want = want[:sc["raise_at"] + 1]
            if w.after_raise:
                bad("delivered-after-raise", "%d deliveries after a delivery raised" % len(w.after_raise))
        if got != want and not sim.failure:
            bad("delivery-mismatch", "delivered %s, expected %s" % (got, want))
        if out.viol:
            wsc = dict(sc)
            wsc["cps"] = cps
            out.witness = wsc
        out.info = {"scenario": {k: v for k, v in sc.items() if k not in ("seed", "index", "sched")}, "cps": cps, "delivered": got}
        return out

    def signature(self, sc, rule, msg):
        return {"rule": rule, "via": sc.get("via")}


PROP = Prop()
