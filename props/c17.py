"""C17 Time-window operators respect their window boundaries."""
import json
from datetime import timedelta

from reactivex import operators as ops

from simlib import catalog, models, multi, timemodels as tm, vt
from simlib.core import Outcome

FORMS = ["take_with_time", "skip_with_time", "take_until_with_time", "take_until_with_time_abs", "skip_until_with_time", "skip_until_with_time_abs",
         "take_last_with_time", "skip_last_with_time", "timeout", "timeout_other", "timeout_abs", "timeout_abs_other", "timeout_with_mapper", "timeout_with_mapper_other",
         "boundary_twin", "boundary_twin"]


def pick_fn(sc):
    pool = sc["pool"]
    return lambda v: pool[vt.h(v) % len(pool)]


class Prop:
    id = "C17"
    level = "exploration"
    engine = "VT"
    quick_runs = 120000
    thorough_runs = 2500000
    rule = ("one generated cold/hot/sync timeline with elements before, at and after every boundary through take/skip_with_time, "
            "take/skip_until_with_time (relative and absolute), take/skip_last_with_time, timeout (relative/absolute, failing or with a "
            "fallback source) and timeout_with_mapper, on numeric and datetime virtual clocks; output compared with event-driven "
            "references (same-instant ties between a source event and an operator timer accepted under any resolution; an element whose "
            "age equals the duration in take_last_with_time may be kept or dropped). Boundary twins: a scenario with an element whose age "
            "at completion equals the duration is run with and without an unrelated arrival at the completion instant; whether the "
            "boundary element is emitted must not change. timeout must never fire after the source terminated. Distinct = (form, args, "
            "output); non-trivial = at least two notifications.")
    assumptions = ["tie policy", "absolute due times lie after the subscription instant"]
    stubs = []

    def generate(self, rng, tier):
        form = rng.choice(FORMS)
        ctx = catalog.Ctx(rng, hot_p=0.45, falsy_p=0.25, sync_p=0.1)
        if form == "boundary_twin":
            d = rng.choice([10, 20, 30, 50])
            op = rng.choice(["take_last_with_time", "take_last_with_time", "skip_last_with_time"])
            kind = rng.choice(["cold", "hot"])
            base = 0 if kind == "cold" else 300
            tx = rng.choice([20, 40, 100])
            ev = []
            if rng.random() < 0.6:
                ev.append([base + tx - rng.choice([5, 10, 20]), "N", "early"])
            ev.append([base + tx, "N", "boundary"])
            if rng.random() < 0.4:
                ev.append([base + tx + 5, "N", "young"])
            tc = base + tx + d
            ev.append([tc, "C"])
            return {"clock": rng.choice(["test", "historical"]), "form": form, "op": op, "d": d, "tc": tc,
                    "sources": [{"id": "s0", "kind": kind, "events": ev}], "src": "s0", "sub_t": 205, "horizon": 1500}
        src = ctx.new_source(maxn=7)
        sc = {"clock": rng.choice(["test", "test", "historical"]), "form": form, "src": src, "d": rng.choice([0, 10, 20, 30, 50, 60, 100, 150]), "sub_t": 205, "horizon": 2000}
        if form.startswith("timeout"):
            sc["d"] = rng.choice([10, 20, 30, 50, 60, 100])
        if "other" in form:
            sc["other"] = ctx.new_source("cold", prefix="p", maxn=2)
        if "with_mapper" in form:
            sc["first"] = ctx.new_source("cold", prefix="p", maxn=1, positive_first=True)
            sc["pool"] = [ctx.new_source("cold", prefix="p", maxn=1, positive_first=True) for _ in range(2)]
        sc["sources"] = ctx.sources
        off = rng.choice([None, None, None, 37, 123, 411])
        if off:
            sc["sub2_t"] = 205 + off
        from simlib import multi
        multi.gen_feedback(rng, sc, src, p=0.15)  # a consumer that pushes a follow-up element into the (hot) source
        return sc

    def build(self, w, sc):
        f = sc["form"] if sc["form"] != "boundary_twin" else sc["op"]
        d = sc["d"]
        s = w.sources[sc["src"]]
        absolute = vt.UTC0 + timedelta(seconds=sc["sub_t"] + d)
        other = w.sources[sc["other"]] if "other" in sc else None
        if f == "take_with_time":
            return s.pipe(ops.take_with_time(float(d)))
        if f == "skip_with_time":
            return s.pipe(ops.skip_with_time(float(d)))
        if f == "take_until_with_time":
            return s.pipe(ops.take_until_with_time(timedelta(seconds=d)))
        if f == "take_until_with_time_abs":
            return s.pipe(ops.take_until_with_time(absolute))
        if f == "skip_until_with_time":
            return s.pipe(ops.skip_until_with_time(float(d)))
        if f == "skip_until_with_time_abs":
            return s.pipe(ops.skip_until_with_time(absolute))
        if f == "take_last_with_time":
            return s.pipe(ops.take_last_with_time(float(d)))
        if f == "skip_last_with_time":
            return s.pipe(ops.skip_last_with_time(float(d)))
        if f in ("timeout", "timeout_other"):
            return s.pipe(ops.timeout(float(d), other))
        if f in ("timeout_abs", "timeout_abs_other"):
            return s.pipe(ops.timeout(absolute, other))
        pick = pick_fn(sc)
        return s.pipe(ops.timeout_with_mapper(w.sources[sc["first"]], lambda v: w.sources[pick(v)], other))

    def model_for(self, keeps):
        def model(eng, sc):
            f = sc["form"] if sc["form"] != "boundary_twin" else sc["op"]
            d, sid = float(sc["d"]), sc["src"]
            if f.endswith("_abs") or f.endswith("_abs_other"):
                d = max(0.0, sc["sub_t"] + d - eng.now)  # an absolute due time: what is left of it at this subscription
            other = sc.get("other")
            if f in ("take_with_time", "take_until_with_time", "take_until_with_time_abs"):
                return tm.m_take_with_time(eng, sid, d)
            if f in ("skip_with_time", "skip_until_with_time", "skip_until_with_time_abs"):
                return tm.m_skip_with_time(eng, sid, d)
            if f == "take_last_with_time":
                return tm.m_take_last_with_time(eng, sid, d, keeps)
            if f == "skip_last_with_time":
                return tm.m_skip_last_with_time(eng, sid, d)
            if f in ("timeout", "timeout_other"):
                return tm.m_timeout(eng, sid, d, other)
            if f in ("timeout_abs", "timeout_abs_other"):
                return tm.m_timeout_abs(eng, sid, d, other)
            return tm.m_timeout_with_mapper(eng, sid, sc["first"], pick_fn(sc), other)
        return model

    def execute(self, sc):
        out = Outcome()
        desc = "form=%s d=%s clock=%s sources=%s" % (sc.get("op", sc["form"]), sc["d"], sc["clock"], [(s["id"], s["kind"], s["events"]) for s in sc["sources"]])
        out.probes["form:" + sc["form"]] += 1
        if sc["form"] == "boundary_twin":
            return self.twin(sc, out, desc)
        o1 = Outcome()
        w, rec, wants = tm.compare(sc, self.build, self.model_for(False), o1, desc)
        if o1.viol and sc["form"] == "take_last_with_time":
            o2 = Outcome()
            tm.compare(sc, self.build, self.model_for(True), o2, desc)
            if not o2.viol:
                out.probes["age_equals_duration"] += 1
                o1 = o2
        out.viol, out.probes = o1.viol, out.probes + o1.probes
        out.faults.update(o1.faults)
        out.sim_time, out.nontrivial = o1.sim_time, o1.nontrivial
        out.digest = (sc["form"], sc["d"], rec.kinds(), tuple(e[1] for e in rec.events))
        out.info = {"form": sc["form"], "d": sc["d"], "got": rec.kinds()}
        return out

    def twin(self, sc, out, desc):
        """boundary rule independent of unrelated arrivals"""
        sc2 = json.loads(json.dumps(sc))
        ev = sc2["sources"][0]["events"]
        ev.insert(len(ev) - 1, [sc["tc"], "N", "unrelated"])
        w1, r1 = multi.run_real(sc, self.build)
        w2, r2 = multi.run_real(sc2, self.build)
        v1 = [v for _, t, k, v in r1.events if k == "N"]
        v2 = [v for _, t, k, v in r2.events if k == "N"]
        out.digest = ("twin", sc["op"], sc["d"], tuple(v1), tuple(v2))
        out.sim_time = 2 * sc["horizon"]
        out.evals = 2
        out.nontrivial = True
        out.probes["age_equals_duration"] += 1
        if not r1.events or not r2.events:
            out.probes["twin_not_subscribed_in_time"] += 1
            return out
        if ("boundary" in v1) != ("boundary" in v2):
            out.bad("boundary-depends-on-arrival", "%s: the element whose age equals the duration at completion is %s without, but %s with an unrelated arrival at the completion instant" % (
                desc, "emitted" if "boundary" in v1 else "dropped", "emitted" if "boundary" in v2 else "dropped"))
        for name in ("early", "young"):
            if (name in v1) != (name in v2):
                out.bad("boundary-depends-on-arrival", "%s: element %r emitted=%s without but %s with the unrelated arrival" % (desc, name, name in v1, name in v2))
        out.info = {"op": sc["op"], "d": sc["d"], "without": v1, "with": v2}
        return out

    def signature(self, sc, rule, msg):
        return {"rule": rule, "form": sc.get("op", sc.get("form"))}


PROP = Prop()
