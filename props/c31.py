"""C31 An event-loop scheduler runs actions serially on one thread, in order (TH engine)."""
from simlib import th
from simlib.core import Outcome


class Work:
    def __init__(self, sc):
        self.sc = sc
        self.acts = {}  # id -> record
        self.sched_errors = []
        self.dispose_ret = None
        self.in_action = None
        self.dup_cancels = 0
        self.overlap = None

    def body(self, sim, shim):
        from datetime import timedelta

        from reactivex.disposable import Disposable
        from reactivex.internal.exceptions import DisposedException
        from reactivex.scheduler import EventLoopScheduler

        sc = self.sc
        s = EventLoopScheduler(exit_if_empty=sc["exit_if_empty"])
        self.scheduler = s
        disps = {}
        acts = self.acts

        def loop_idle():
            libs = [t for t in sim.threads if t.kind == "lib" and t.state != "done"]
            return all(t.state == "blocked" and t.blocked_on != "stall" for t in libs)

        def do(op, sch, who):
            kind = op[0]
            if kind == "sleep":
                sim.sleep(op[1] / 1000.0)
                return
            if kind == "dispose":
                s.dispose()
                if self.dispose_ret is None:
                    self.dispose_ret = sim.tick()
                return
            if kind == "cancel":
                d = disps.get(op[1])
                if d is not None:
                    rec = acts[op[1]]
                    # a cancel issued while another cancel of the same action is still in flight is a no-op that returns at
                    # once (Disposable runs its action in the call that claimed the flag): its return proves nothing
                    dup = rec["cancel_inflight"] > 0
                    rec["cancel_inflight"] += 1
                    d.dispose()
                    rec["cancel_inflight"] -= 1
                    if dup:
                        self.dup_cancels += 1
                    elif rec["cancel_ret"] is None:
                        rec["cancel_ret"] = sim.tick()
                        # commit-window rule: strict only if the loop provably has not committed to this action
                        rec["cancel_strict"] = (who == "loop") or (self.in_action is not None and self.in_action != op[1]) or loop_idle()
                return
            aid = op[1]
            rec = acts[aid] = {"id": aid, "kind": kind, "inv": sim.tick(), "ret": None, "due": None, "start": None, "end": None,
                               "start_t": None, "thread": None, "runs": 0, "cancel_ret": None, "cancel_strict": False, "cancel_inflight": 0, "error": None,
                               "after_dispose": self.dispose_ret is not None}
            then = op[3] if len(op) > 3 else None

            def action(scheduler, state=None):
                rec["runs"] += 1
                if self.in_action is not None:
                    self.overlap = (self.in_action, aid)
                self.in_action = aid
                rec["start"] = sim.tick()
                rec["start_t"] = sim.now
                rec["thread"] = (sim.current.name, sim.current.kind)
                sim.yield_point("action.body")
                if then is not None:
                    do(then, scheduler, "loop")
                sim.yield_point("action.body2")
                rec["end"] = sim.tick()
                self.in_action = None
                return Disposable()

            # the scheduler reads the clock somewhere between invoke and return: the due time is known as an interval
            delay = 0 if kind == "imm" else op[2] * 1000
            rec["due"] = (self.base_us if kind == "abs" else sim.now) + delay  # absolute times from one base instant, so ties occur
            try:
                if kind == "imm":
                    disps[aid] = sch.schedule(action)
                elif kind == "rel":
                    disps[aid] = sch.schedule_relative(op[2] / 1000.0, action)
                else:
                    disps[aid] = sch.schedule_absolute(self.base_dt + timedelta(milliseconds=op[2]), action)
            except DisposedException:
                rec["error"] = "DisposedException"
            rec["due_hi"] = rec["due"] if kind == "abs" else sim.now + delay
            rec["ret"] = sim.tick()

        sim.mark()
        self.base_us, self.base_dt = sim.now, sim.utcnow()

        def worker(ops):
            def run():
                for op in ops:
                    do(op, s, "worker")
            return run

        for i, ops in enumerate(sc["scripts"]):
            sim.spawn(worker(ops), "w%d" % i, "work")


class Prop:
    id = "C31"
    level = "exploration"
    engine = "TH (controlled threads: baton passing, line-level pre-emption points, simulated locks/conditions/clock)"
    quick_runs = 20000
    thorough_runs = 300000
    chunk = 100
    time_unit = "simulated seconds (clock jumps to the next timer when nothing is runnable)"
    rule = ("1-2 controlled scheduling threads run seeded scripts of schedule / schedule_relative / schedule_absolute / cancel / dispose / "
            "sleep against a real EventLoopScheduler (exit_if_empty on and off; actions may schedule or cancel from the loop thread), with "
            "0-3 forced pre-emptions (site-first sampling over a dry run), spurious Condition wake-ups and forward clock drift as faults. "
            "Checked: actions only on scheduler threads, never two at once, each at most once; an action submitted before another with an "
            "earlier due time (or both immediate) starts first; never before its due time; a cancel that returned while the loop was idle, "
            "inside another action, or issued on the loop thread means the action never starts; after dispose() returned schedule raises "
            "DisposedException; without dispose every non-cancelled action ran by quiescence and with exit_if_empty no loop thread is "
            "left; no deadlock. Distinct = (scripts, context-switch sequence); non-trivial = at least two actions ran and a forced "
            "pre-emption or fault fired.")
    assumptions = ["commit-window rule for cross-thread cancellation (DESIGN.md section 9)", "pre-emption at line/return granularity of repo code and every simulated primitive operation"]
    stubs = ["threading.Lock/Condition/Thread (simulated)", "wall clock (reactivex.scheduler.scheduler.default_now -> simulated clock)"]
    real = ["reactivex/scheduler/eventloopscheduler.py", "reactivex/scheduler/scheduleditem.py", "reactivex/internal/priorityqueue.py"]

    def generate(self, rng, tier):
        nid = [0]

        def sched_op(nested=True):
            k = rng.choice(["imm", "imm", "rel", "rel", "abs"])
            op = [k, nid[0], rng.choice([0, 1, 5, 5, 10, 50])]
            nid[0] += 1
            if nested and rng.random() < 0.25:
                op.append(sched_op(False) if rng.random() < 0.6 else ["cancel", rng.randrange(0, max(1, nid[0]))])
            return op

        scripts = []
        for _ in range(rng.choice([1, 2, 2])):
            ops = []
            for _ in range(rng.randrange(1, 5)):
                r = rng.random()
                if r < 0.6:
                    ops.append(sched_op())
                elif r < 0.75:
                    ops.append(["cancel", rng.randrange(0, max(1, nid[0]))])
                elif r < 0.92:
                    ops.append(["sleep", rng.choice([1, 5, 7, 20, 100])])
                else:
                    ops.append(["dispose"])
            scripts.append(ops)
        return {"exit_if_empty": rng.random() < 0.5, "scripts": scripts, "sched": th.gen_sched(rng, spurious_p=0.3, drift_p=0.5, sweep_p=0.02, stall_p=0.3)}

    def execute(self, sc):
        if sc["sched"].get("sweep") and "cps" not in sc:
            return th.sweep(self.execute, sc)
        out = Outcome()
        self._explore(sc, out)
        return out

    def _explore(self, sc, out):
        holder = {}

        def factory():
            w = Work(sc)
            holder["w"] = w
            return w.body

        sim, cps = th.explore(sc, factory, out, focus=("eventloopscheduler.py", "scheduleditem.py"))
        w = holder["w"]
        acts = list(w.acts.values())
        dig = th.interleaving_digest(sim)
        out.digest = (repr(sc["scripts"]), sc["exit_if_empty"], dig)
        ran = [a for a in acts if a["start"] is not None]
        out.nontrivial = len(ran) >= 2 and (sim.faults["preempt"] + sim.faults["spurious_wakeup"] + sim.faults["clock_drift"] > 0)
        out.probes["exit_if_empty" if sc["exit_if_empty"] else "keep_thread"] += 1
        if w.dispose_ret is not None:
            out.probes["disposed"] += 1
        if w.dup_cancels:
            out.probes["concurrent_duplicate_cancel"] += 1
        desc = "exit_if_empty=%s scripts=%s cps=%s sched=%s" % (sc["exit_if_empty"], sc["scripts"], cps, sc["sched"])

        def bad(rule, msg):
            if not out.viol:
                out.bad(rule, "%s: %s" % (desc, msg))

        if sim.failure:
            bad(sim.failure[0], sim.failure[1])
        if sim.thread_errors:
            bad("thread-exception", repr(sim.thread_errors[0]))
        if w.overlap:
            bad("overlap", "action %s started while action %s was running" % (w.overlap[1], w.overlap[0]))
        for a in acts:
            if a["runs"] > 1:
                bad("ran-twice", "action %s ran %d times" % (a["id"], a["runs"]))
            if a["thread"] is not None and a["thread"][1] != "lib":
                bad("wrong-thread", "action %s ran on caller thread %s" % (a["id"], a["thread"][0]))
            if a["start"] is not None and a["start_t"] < a["due"]:
                bad("early", "action %s started at %d us, due at %d us" % (a["id"], a["start_t"], a["due"]))
            if a["start"] is not None and a["cancel_ret"] is not None and a["cancel_strict"] and a["start"] > a["cancel_ret"]:
                out.probes["strict_cancel_checked"] += 1
                bad("ran-after-cancel", "action %s started after its cancel returned (loop idle / in another action / cancel on loop thread)" % a["id"])
            if a["cancel_ret"] is not None and a["cancel_strict"] and a["start"] is None:
                out.probes["strict_cancel_checked"] += 1
            if w.dispose_ret is not None and a["inv"] > w.dispose_ret and a["error"] != "DisposedException":
                bad("schedule-after-dispose", "schedule of action %s was invoked after dispose() returned but did not raise DisposedException" % a["id"])
        for a in ran:
            for b in ran:
                if a is b or a["ret"] is None or a["ret"] >= b["inv"]:
                    continue
                both_imm = a["kind"] == "imm" and b["kind"] == "imm"
                if (a["due_hi"] < b["due"] or both_imm) and a["start"] > b["start"]:
                    bad("order", "action %s (due %d, submitted first) started after action %s (due %d)" % (a["id"], a["due"], b["id"], b["due"]))
        if w.dispose_ret is None and not sim.failure:
            lost = [a["id"] for a in acts if a["error"] is None and a["ret"] is not None and a["start"] is None and a["cancel_ret"] is None]
            if lost:
                bad("lost-action", "actions %s were scheduled, never cancelled, and had not run at quiescence" % lost)
            if sc["exit_if_empty"]:
                left = [t.name for t in sim.threads if t.kind == "lib" and t.state != "done"]
                if left:
                    bad("thread-not-exited", "exit_if_empty: loop thread(s) %s still alive at quiescence" % left)
        if out.viol:
            wsc = dict(sc)
            wsc["cps"] = cps
            out.witness = wsc
        out.info = {"scripts": sc["scripts"], "cps": cps, "ran": [a["id"] for a in sorted(ran, key=lambda a: a["start"])]}
        return sim, cps

    def signature(self, sc, rule, msg):
        return {"rule": rule}


PROP = Prop()
