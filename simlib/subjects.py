"""Call-history harness and sequential reference models for the four subjects (C20-C23)."""
from __future__ import annotations

from simlib import vt
from simlib.core import Outcome

from reactivex.internal.exceptions import DisposedException
from reactivex.scheduler import VirtualTimeScheduler
from reactivex.subject import AsyncSubject, BehaviorSubject, ReplaySubject, Subject


# ------------------------------------------------------------------ model

class Model:
    """Sequential model.  Logs per observer a list of (kind, value, optional?) entries."""

    def __init__(self, kind, cfg, scripts):
        self.kind = kind
        self.cfg = cfg
        self.scripts = scripts  # oid -> {"k": int, "do": [...]}
        self.observers = []  # subscribed, in order
        self.stopped = None  # None | ("C",) | ("E", tag)
        self.disposed = False
        self.logs = {}
        self.counts = {}
        self.now = 0.0
        self.value = vt.dec(cfg.get("initial")) if kind == "behavior" else None
        self.has_value = False
        self.retained = []  # replay: (t, v)

    def deliver(self, oid, kind, value, optional=False):
        self._log(oid, kind, value, optional)

    def _log(self, oid, kind, value, optional=False):
        if any(k in "CE" and not opt for k, _, opt in self.logs.get(oid, [])):
            return  # an observer that has got its terminal notification (from a nested call) ignores what the outer call still hands it
        if self.unsubscribed and oid in self.unsubscribed:
            return  # unsubscribing detaches the observer itself: whatever a call that is still in progress hands it is dropped
        self.logs.setdefault(oid, []).append((kind, value, optional))
        k = self.counts.get(oid, 0)
        self.counts[oid] = k + 1
        sc = self.scripts.get(str(oid))
        if sc and sc["k"] == k:
            self.apply(sc["do"], reentrant_from=oid)

    def trim(self):
        n, win = self.cfg.get("buffer_size"), self.cfg.get("window")
        if n is not None:
            self.retained = self.retained[max(0, len(self.retained) - n):]
        if win is not None:
            self.retained = [(t, v) for t, v in self.retained if self.now - t <= win]

    def apply(self, op, reentrant_from=None):
        """returns the name of the exception the call must raise, or None"""
        name = op[0]
        if name == "advance":
            self.now += op[1]
            return None
        if name == "sub":
            oid = op[1]
            if self.kind == "replay":
                return self._sub(op)
            # deliveries made synchronously inside subscribe() reach a subscriber that does not hold its
            # disposable yet: a re-entrant unsubscribe of itself takes effect when subscribe() returns
            self.subscribing.add(oid)
            try:
                return self._sub(op)
            finally:
                self.subscribing.discard(oid)
                if oid in self.pending_unsub:
                    self.pending_unsub.discard(oid)
                    self.apply(["unsub", oid])
        if name == "unsub" and op[1] in self.subscribing:
            self.pending_unsub.add(op[1])
            return None
        return self._apply(op)

    def _sub(self, op):
        return self._apply(op)

    def _apply(self, op):
        name = op[0]
        if name == "sub":
            oid, has_err = op[1], op[2]
            self.unsubscribed.discard(oid)
            if self.disposed:
                if has_err:
                    self.deliver(oid, "E", "DisposedException")
                    return None
                return "DisposedException"
            self.logs.setdefault(oid, [])
            if self.kind == "replay":
                self.trim()
                # replay delivers through its scheduler: queued now, observed after the drain; order preserved
                self.observers.append(oid) if self.stopped is None else None
                for _, v in list(self.retained):
                    if oid in self.unsubscribed:
                        return None
                    self.deliver(oid, "N", v)
                if self.stopped and oid not in self.unsubscribed:
                    self.deliver(oid, *self.term())
                return None
            if self.stopped is not None:
                if self.kind == "async" and self.stopped[0] == "C" and self.has_value:
                    self.deliver(oid, "N", self.value)
                if oid not in self.unsubscribed:
                    self.deliver(oid, *self.term())
                return None
            self.observers.append(oid)
            if self.kind == "behavior":
                self.deliver(oid, "N", self.value)
            return None
        if name == "unsub":
            oid = op[1]
            if oid in self.observers:
                self.observers.remove(oid)
            self.unsubscribed.add(oid)
            return None
        if name == "dispose":
            self.disposed = True
            self.observers = []
            return None
        # emissions
        if self.disposed:
            return "DisposedException"
        if self.stopped is not None:
            return None
        if name == "next":
            v = vt.dec(op[1])
            if self.kind == "behavior":
                self.value = v
            if self.kind == "async":
                self.value, self.has_value = v, True
                return None
            if self.kind == "replay":
                self.retained.append((self.now, v))
                self.trim()
            self.broadcast("N", v)
            return None
        self.stopped = ("C",) if name == "completed" else ("E", op[1])
        if self.kind == "replay":
            self.trim()
        snapshot = list(self.observers)
        self.observers = []
        if self.kind == "async" and name == "completed" and self.has_value:
            self.broadcast_to(snapshot, "N", self.value, then=self.term())
        else:
            self.broadcast_to(snapshot, *self.term())
        return None

    unsubscribed = None

    def term(self):
        return ("C", None) if self.stopped[0] == "C" else ("E", self.stopped[1])

    def broadcast(self, kind, value):
        self.broadcast_to(list(self.observers), kind, value)

    def broadcast_to(self, snapshot, kind, value, then=None):
        done = set()
        for oid in snapshot:
            # an observer unsubscribed (re-entrantly) after the call was made but before its turn: either outcome
            optional = oid in self.unsubscribed_during
            if oid in self.gone:
                optional = True
            self.deliver_guard(oid, kind, value, optional, then)
            done.add(oid)

    def deliver_guard(self, oid, kind, value, optional, then):
        self.deliver(oid, kind, value, optional)
        if then is not None and oid not in self.unsubscribed:
            self.deliver(oid, then[0], then[1], optional)


class SeqModel(Model):
    """Adds bookkeeping of re-entrant unsubscriptions during a broadcast."""

    def __init__(self, *a):
        super().__init__(*a)
        self.unsubscribed = set()
        self.subscribing = set()
        self.pending_unsub = set()
        self.unsubscribed_during = set()
        self.gone = set()
        self.in_broadcast = 0

    def apply(self, op, reentrant_from=None):
        if op[0] == "unsub" and self.in_broadcast:
            self.gone.add(op[1])
        return super().apply(op, reentrant_from)

    def broadcast_to(self, snapshot, kind, value, then=None):
        self.in_broadcast += 1
        saved = self.gone
        self.gone = set()
        try:
            for oid in snapshot:
                optional = oid in self.gone
                self.deliver_guard(oid, kind, value, optional, then)
        finally:
            self.in_broadcast -= 1
            self.gone = saved


class ReplayModel(SeqModel):
    """ReplaySubject hands every notification to a per-subscriber FIFO that is emptied one item per scheduler pass
    (round-robin over the subscribers with pending items).  The statement fixes the order seen by each subscriber (call
    order, nothing lost, duplicated or reordered); the FIFOs matter once a callback feeds the subject again: the fed-back
    value is queued behind what that subscriber still has pending instead of being delivered nested."""

    def __init__(self, *a):
        super().__init__(*a)
        self.queues = {}
        self.acquired = set()
        self.runq = []
        self.dead = set()
        self.touched = []
        self.depth = 0
        self.draining = False
        self.auto_drain = True  # False: the caller decides when the scheduler gets to run (flush())

    def deliver(self, oid, kind, value, optional=False):
        self.queues.setdefault(oid, []).append((kind, value))
        self.touched.append(oid)

    def apply(self, op, reentrant_from=None):
        self.depth += 1
        mark = len(self.touched)
        try:
            r = super().apply(op, reentrant_from)
        finally:
            self.depth -= 1
        if op[0] == "unsub":
            self.dead.add(op[1])
            self.queues[op[1]] = []
        for oid in self.touched[mark:]:
            if oid not in self.acquired and oid not in self.dead and self.queues.get(oid):
                self.acquired.add(oid)
                self.runq.append(oid)
        del self.touched[mark:]
        if self.depth == 0 and self.auto_drain:
            self.flush()
        return r

    def flush(self):
        if not self.draining:
            self.draining = True
            try:
                self.drain()
            finally:
                self.draining = False

    def drain(self):
        while self.runq:
            oid = self.runq.pop(0)
            q = self.queues.get(oid)
            if oid in self.dead or not q:
                self.acquired.discard(oid)
                continue
            kind, value = q.pop(0)
            if kind in "CE":
                self.dead.add(oid)  # the subscriber is detached by its terminal notification
            self._log(oid, kind, value)
            self.runq.append(oid)


# ------------------------------------------------------------------ real execution

class Obs:
    def __init__(self, h, oid):
        self.h, self.oid, self.log, self.k, self.sub = h, oid, [], 0, None
        self.pending_unsub = False

    def react(self):
        k = self.k
        self.k += 1
        sc = self.h.scripts.get(str(self.oid))
        if sc and sc["k"] == k:
            self.h.do(sc["do"])

    def on_next(self, v):
        self.log.append(("N", v))
        self.react()

    def on_error(self, e):
        self.log.append(("E", e))
        self.react()

    def on_completed(self):
        self.log.append(("C", None))
        self.react()


class History:
    def __init__(self, kind, cfg, scripts):
        self.kind, self.cfg, self.scripts = kind, cfg, scripts
        self.s = VirtualTimeScheduler(0.0)
        if kind == "plain":
            self.subject = Subject()
        elif kind == "behavior":
            self.subject = BehaviorSubject(vt.dec(cfg.get("initial")))
        elif kind == "async":
            self.subject = AsyncSubject()
        else:
            self.subject = ReplaySubject(cfg.get("buffer_size"), cfg.get("window"), self.s)
        self.obs = {}
        self.raised = []

    def do(self, op):
        name = op[0]
        sj = self.subject
        if name == "advance":
            self.s.sleep(float(op[1]))
        elif name == "sub":
            o = self.obs.setdefault(op[1], Obs(self, op[1]))
            if op[2]:
                o.sub = sj.subscribe(o.on_next, o.on_error, o.on_completed)
            else:
                o.sub = sj.subscribe(o.on_next, None, o.on_completed)
            if o.pending_unsub:
                o.sub.dispose()
        elif name == "unsub":
            o = self.obs.get(op[1])
            if o is not None:
                if o.sub is not None:
                    o.sub.dispose()
                else:
                    o.pending_unsub = True
        elif name == "next":
            sj.on_next(vt.dec(op[1]))
        elif name == "error":
            sj.on_error(vt.SourceError(op[1]))
        elif name == "completed":
            sj.on_completed()
        elif name == "dispose":
            sj.dispose()

    def run(self, ops):
        for op in ops:
            try:
                self.do(op)
                self.raised.append(None)
            except Exception as e:
                self.raised.append(type(e).__name__)
            if self.kind == "replay":
                try:
                    self.s.start()
                except Exception as e:  # delivery raised out of the scheduler
                    self.raised[-1] = "drain:" + type(e).__name__
        return self


# ------------------------------------------------------------------ generation / comparison

def gen_history(rng, kind, falsy_p=0.4, max_ops=12):
    cfg = {}
    if kind == "behavior":
        cfg["initial"] = vt.gen_value(rng, 0.6)
    if kind == "replay":
        cfg["buffer_size"] = rng.choice([None, None, 0, 1, 2, 3, 4])
        cfg["window"] = rng.choice([None, None, 10, 20, 50])
    ops = []
    scripts = {}
    next_oid = 0
    subscribed = []
    disposed = False
    n = rng.randrange(2, max_ops + 1)
    for _ in range(n):
        r = rng.random()
        if r < 0.3:
            has_err = True if not disposed else rng.random() < 0.5
            ops.append(["sub", next_oid, has_err])
            subscribed.append(next_oid)
            if (kind == "replay" and rng.random() < 0.12) or (kind in ("behavior", "plain") and rng.random() < 0.06):
                # the observer feeds the subject from inside its k-th notification (replay: its per-subscriber FIFOs give such a
                # call a defined place in every subscriber's order; plain / behavior: the nested call is delivered to everybody
                # subscribed at that moment before the outer delivery goes on)
                fb = rng.choice([["next", vt.gen_value(rng, falsy_p)], ["next", vt.gen_value(rng, falsy_p)], ["completed"], ["error", "x"]])
                scripts[str(next_oid)] = {"k": rng.randrange(0, 4), "do": fb}
            elif rng.random() < 0.05:
                scripts[str(next_oid)] = {"k": rng.randrange(0, 3), "do": ["dispose"]}  # disposes the subject from inside its k-th notification
            elif rng.random() < 0.2:  # scripted re-entrant reaction of this observer
                if rng.random() < 0.5:
                    scripts[str(next_oid)] = {"k": rng.randrange(0, 3), "do": ["unsub", rng.choice(subscribed)]}
                else:
                    scripts[str(next_oid)] = {"k": rng.randrange(0, 3), "do": ["sub", next_oid + 100, True]}
            next_oid += 1
        elif r < 0.4 and subscribed:
            ops.append(["unsub", rng.choice(subscribed)])
        elif r < 0.8:
            ops.append(["next", vt.gen_value(rng, falsy_p)])
        elif r < 0.86:
            ops.append(["completed"])
        elif r < 0.91:
            ops.append(["error", rng.choice(["x", "y"])])
        elif r < 0.95:
            ops.append(["dispose"])
            disposed = True
        elif kind == "replay":
            ops.append(["advance", rng.choice([5, 10, 10, 20, 30])])
        else:
            ops.append(["next", vt.gen_value(rng, falsy_p)])
    if kind == "replay" and rng.random() < 0.7:  # sprinkle time
        for i in range(len(ops) - 1, 0, -1):
            if rng.random() < 0.3:
                ops.insert(i, ["advance", rng.choice([5, 10, 10, 20, 30])])
    if disposed or any(v["do"][0] == "dispose" for v in scripts.values()):
        # a feed-back into a disposed subject raises inside the subscriber's callback: not part of this model
        scripts = {k: v for k, v in scripts.items() if v["do"][0] in ("sub", "unsub", "dispose")}
    return {"kind": kind, "cfg": cfg, "ops": ops, "scripts": scripts}


def match(want, got):
    """want entries may be optional (either delivered or not)."""
    def rec(i, j):
        if i == len(want):
            return j == len(got)
        k, v, opt = want[i]
        if j < len(got) and got[j][0] == k and _veq(k, v, got[j][1]):
            if rec(i + 1, j + 1):
                return True
        return opt and rec(i + 1, j)

    return rec(0, 0)


def _veq(k, a, b):
    if k == "N":
        return vt.vkey(a) == vt.vkey(b)
    if k == "E":
        if a == "DisposedException":
            return isinstance(b, DisposedException)
        return isinstance(b, vt.SourceError) and b.tag == a
    return True


def execute(sc):
    out = Outcome()
    kind = sc["kind"]
    h = History(kind, sc["cfg"], sc["scripts"]).run(sc["ops"])
    m = (ReplayModel if kind == "replay" else SeqModel)(kind, sc["cfg"], sc["scripts"])
    want_raised = [m.apply(op) for op in sc["ops"]]
    out.digest = (kind, repr(sc["cfg"]), tuple(op[0] for op in sc["ops"]), tuple(len(o.log) for o in h.obs.values()))
    out.sim_time = float(h.s.clock)
    out.nontrivial = sum(len(o.log) for o in h.obs.values()) >= 2
    names = [op[0] for op in sc["ops"]]
    if sc["scripts"]:
        out.probes["reentrant_script"] += 1
    if any(v["do"][0] in ("next", "completed", "error") for v in sc["scripts"].values()):
        out.probes["feedback_script"] += 1
    if any(v["do"][0] == "dispose" for v in sc["scripts"].values()):
        out.probes["dispose_from_callback_script"] += 1
    if "dispose" in names:
        out.probes["disposed"] += 1
    if any(x for x in want_raised):
        out.probes["raises_disposed"] += 1
    late = False
    seen_term = False
    for nme in names:
        if nme in ("completed", "error"):
            seen_term = True
        elif nme == "sub" and seen_term:
            late = True
    if late:
        out.probes["late_subscriber"] += 1
    desc = "%s%s ops=%s scripts=%s" % (kind, sc["cfg"] or "", sc["ops"], sc["scripts"] or "")
    if h.raised != want_raised:
        out.bad("raised", "%s: calls raised %s, model %s" % (desc, h.raised, want_raised))
        return out
    for oid in sorted(set(m.logs) | set(h.obs)):
        want = m.logs.get(oid, [])
        got = h.obs[oid].log if oid in h.obs else []
        if not match(want, got):
            out.bad("observer-log", "%s: observer %s received %s, model %s" % (
                desc, oid, [(k, vt.vkey(v) if k == "N" else v) for k, v in got], [(k, vt.vkey(v) if k == "N" else v, o) for k, v, o in want]))
            return out
    out.info = {"kind": kind, "cfg": sc["cfg"], "ops": sc["ops"][:10]}
    return out
