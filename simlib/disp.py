"""Disposables under the TH engine: concurrent call histories checked for linearizability
against small sequential models (C25, C26, C27)."""
from __future__ import annotations

import random

from simlib import th
from simlib.core import Outcome


class Item:
    """Counting disposable.  `falsy` items have __len__ == 0, like an empty CompositeDisposable."""

    def __init__(self, sim, name, falsy, log):
        self.sim, self.name, self.falsy, self.log = sim, name, falsy, log
        self.count = 0
        self.reenter = None  # callable: what this item's teardown does to the container that is disposing it (first time only)

    def __len__(self):
        return 0 if self.falsy else 1

    def dispose(self):
        sim = self.sim
        sim.yield_point("item.dispose")
        self.count += 1
        self.log.append((sim.tick(), self.name, getattr(sim.current, "op", None)))
        if self.reenter is not None and self.count == 1:
            self.reenter()
        sim.yield_point("item.dispose.end")

    def __repr__(self):
        return "Item(%s)" % self.name


# ------------------------------------------------------------------ sequential models
# each model: apply(op) -> (result, frozenset(items disposed by this op))

class MDisposable:
    def __init__(self, cfg):
        self.disposed = False

    def apply(self, op):
        if op[0] == "dispose":
            if self.disposed:
                return None, frozenset()
            self.disposed = True
            return None, frozenset(["action"])
        if op[0] == "is_disposed":
            return self.disposed, frozenset()
        raise ValueError(op)


class MBoolean(MDisposable):
    def apply(self, op):
        r, d = super().apply(op)
        return r, frozenset()


class MComposite:
    def __init__(self, cfg):
        self.items = list(cfg.get("initial", []))
        self.disposed = False

    def apply(self, op):
        n = op[0]
        if n == "add":
            if self.disposed:
                return None, frozenset([op[1]])
            self.items.append(op[1])
            return None, frozenset()
        if n == "remove":
            if self.disposed or op[1] not in self.items:
                return False, frozenset()
            self.items.remove(op[1])
            return True, frozenset([op[1]])
        if n == "clear":
            d = frozenset(self.items)
            self.items = []
            return None, d
        if n == "dispose":
            if self.disposed:
                return None, frozenset()
            self.disposed = True
            d = frozenset(self.items)
            self.items = []
            return None, d
        if n == "is_disposed":
            return self.disposed, frozenset()
        raise ValueError(op)


class MSerial:
    replace_disposes = True
    single = False

    def __init__(self, cfg):
        self.current = None
        self.disposed = False

    def apply(self, op):
        n = op[0]
        if n == "set":
            if self.single and self.current is not None:
                return "Exception", frozenset()
            if self.disposed:
                return None, frozenset([op[1]])
            old = self.current
            self.current = op[1]
            if old is not None and self.replace_disposes:
                return None, frozenset([old])
            return None, frozenset()
        if n == "dispose":
            if self.disposed:
                return None, frozenset()
            self.disposed = True
            old, self.current = self.current, None
            return None, frozenset([old]) if old is not None else frozenset()
        if n == "is_disposed":
            return self.disposed, frozenset()
        raise ValueError(op)


class MSingle(MSerial):
    single = True


class MMultiple(MSerial):
    replace_disposes = False


class MRefCount:
    """ops: get (hands out dependent k), rel k (dispose dependent k), dispose (primary)."""

    def __init__(self, cfg):
        self.count = 0
        self.primary = False
        self.released = False
        self.live = {}  # dependent id -> "live" | "inert" | "done"

    def _maybe(self):
        if self.primary and self.count == 0 and not self.released:
            self.released = True
            return frozenset(["underlying"])
        return frozenset()

    def apply(self, op):
        n = op[0]
        if n == "get":
            if self.released:
                self.live[op[1]] = "inert"
            else:
                self.live[op[1]] = "live"
                self.count += 1
            return None, frozenset()
        if n == "rel" and len(op) > 2:
            return "no-handle", frozenset()  # (harness) the releasing thread had no handle yet: no call was made
        if n == "rel":
            st = self.live.get(op[1])
            if st == "live":
                self.live[op[1]] = "done"
                self.count -= 1
                return None, self._maybe()
            return None, frozenset()
        if n == "dispose":
            if not self.primary:
                self.primary = True
                return None, self._maybe()
            return None, frozenset()
        if n == "is_disposed":
            return self.released, frozenset()
        raise ValueError(op)


MODELS = {"disposable": MDisposable, "boolean": MBoolean, "composite": MComposite, "serial": MSerial, "single": MSingle,
          "multiple": MMultiple, "refcount": MRefCount}


# ------------------------------------------------------------------ real objects

def make_real(kind, sim, items, log):
    from reactivex.disposable import (BooleanDisposable, CompositeDisposable, Disposable, MultipleAssignmentDisposable,
                                      RefCountDisposable, SerialDisposable, SingleAssignmentDisposable)
    if kind == "disposable":
        act = items["action"] = Item(sim, "action", False, log)
        return Disposable(act.dispose)
    if kind == "boolean":
        return BooleanDisposable()
    if kind == "composite":
        return CompositeDisposable()
    if kind == "serial":
        return SerialDisposable()
    if kind == "single":
        return SingleAssignmentDisposable()
    if kind == "multiple":
        return MultipleAssignmentDisposable()
    if kind == "refcount":
        items["underlying"] = Item(sim, "underlying", False, log)
        return RefCountDisposable(items["underlying"])
    raise ValueError(kind)


def do_real(kind, obj, op, items, deps):
    n = op[0]
    if n == "dispose":
        return obj.dispose()
    if n == "is_disposed":
        return bool(obj.is_disposed)
    if n == "add":
        return obj.add(items[op[1]])
    if n == "remove":
        return obj.remove(items[op[1]])
    if n == "clear":
        return obj.clear()
    if n == "set":
        obj.disposable = items[op[1]]
        return None
    if n == "get":
        deps[op[1]] = obj.disposable
        return None
    if n == "rel":
        d = deps.get(op[1])
        if d is None:
            return "no-handle"  # the thread that asked for this dependent has not got it back yet: nothing to call
        d.dispose()
        return None
    raise ValueError(op)


# ------------------------------------------------------------------ generation

def gen(rng, kinds, threads_choices=(1, 2, 2, 3)):
    kind = rng.choice(kinds)
    nthreads = rng.choice(threads_choices)
    items = {"i%d" % i: rng.random() < 0.35 for i in range(4)}  # name -> falsy?
    scripts = []
    dep = 0
    for _ in range(nthreads):
        ops = []
        for _ in range(rng.choice([1, 2, 2, 3]) if nthreads > 1 else rng.randrange(2, 8)):
            if kind in ("disposable", "boolean"):
                ops.append(rng.choice([["dispose"], ["dispose"], ["is_disposed"]]))
            elif kind == "composite":
                r = rng.random()
                it = rng.choice(sorted(items))
                ops.append(["add", it] if r < 0.4 else ["remove", it] if r < 0.6 else ["clear"] if r < 0.7 else ["dispose"] if r < 0.9 else ["is_disposed"])
            elif kind in ("serial", "single", "multiple"):
                r = rng.random()
                ops.append(["set", rng.choice(sorted(items))] if r < 0.6 else ["dispose"] if r < 0.9 else ["is_disposed"])
            else:
                r = rng.random()
                if r < 0.4:
                    ops.append(["get", dep])
                    if rng.random() < 0.8:
                        ops.append(["rel", dep])
                    if rng.random() < 0.2:
                        ops.append(["rel", dep])
                    dep += 1
                elif r < 0.8:
                    ops.append(["dispose"])
                else:
                    ops.append(["is_disposed"])
        scripts.append(ops)
    if kind == "refcount" and dep and len(scripts) > 1 and rng.random() < 0.6:
        # a dependent handed out on one thread is (also) released by another one: the same dependent disposed concurrently
        for _ in range(rng.choice([1, 1, 2])):
            k = rng.randrange(dep)
            owner = next(i for i, ops in enumerate(scripts) if ["get", k] in ops)
            other = rng.choice([i for i in range(len(scripts)) if i != owner])
            scripts[other].insert(rng.randrange(len(scripts[other]) + 1), ["rel", k])
    # an item may be handed to a container only once per history (re-adding a disposed item is outside the statement)
    seen = set()
    for ops in scripts:
        for op in list(ops):
            if op[0] in ("add", "set"):
                if op[1] in seen:
                    ops.remove(op)
                seen.add(op[1])
    scripts = [s for s in scripts if s] or [[["dispose"]]]
    sc = {"kind": kind, "items": items, "scripts": scripts,
          "sched": {"seed": rng.getrandbits(32), "k": rng.choice([0, 1, 2, 2, 3, 3]) if len(scripts) > 1 else 0}}
    if kind in ("composite", "serial", "single", "multiple") and rng.random() < 0.25:
        used = sorted(set(op[1] for ops in scripts for op in ops if op[0] in ("add", "set")))
        if used:
            sc["reenter"] = {rng.choice(used): ["dispose"]}  # this item's teardown disposes the container it was put into
    if kind == "disposable" and rng.random() < 0.25:
        sc["reenter"] = {"action": ["dispose"]}  # the action disposes its own Disposable again (directly, or through a group it belongs to)
    if len(scripts) > 1 and sc["sched"]["k"] and rng.random() < 0.3:
        sc["sched"]["opcodes"] = True  # pre-emption points between the bytecodes of reactivex/disposable/*.py (else: between its lines)
    return sc


# ------------------------------------------------------------------ execution

class Work:
    def __init__(self, sc):
        self.sc = sc
        self.history = []  # dicts: thread, op, inv, ret, result
        self.log = []  # item dispose log: (seq, item, op id)
        self.items = {}

    def body(self, sim, shim):
        sc = self.sc
        self.items = {n: Item(sim, n, f, self.log) for n, f in sc["items"].items()}
        obj = make_real(sc["kind"], sim, self.items, self.log)
        self.obj = obj
        deps = {}
        def nested_call(nested):
            # the item's teardown calls back into the container: a call of its own in the history (same thread, inside the
            # interval of the call that is disposing the item), so that what it disposes is attributed to it
            outer = sim.current.op
            rec = {"thread": outer[0] if outer else -1, "op": nested, "id": (outer, "nested"), "inv": sim.tick(), "ret": None, "result": None}
            self.history.append(rec)
            sim.current.op = rec["id"]
            try:
                rec["result"] = do_real(sc["kind"], obj, nested, self.items, deps)
            finally:
                sim.current.op = outer
                rec["ret"] = sim.tick()

        for name, nested in (sc.get("reenter") or {}).items():
            if name in self.items:
                self.items[name].reenter = (lambda nested=nested: nested_call(nested))
        sim.mark()

        def worker(ti, ops):
            def run():
                for oi, op in enumerate(ops):
                    rec = {"thread": ti, "op": op, "id": (ti, oi), "inv": sim.tick(), "ret": None, "result": None}
                    self.history.append(rec)
                    sim.current.op = (ti, oi)
                    sim.yield_point("op.invoke")
                    try:
                        rec["result"] = do_real(sc["kind"], obj, op, self.items, deps)
                    except Exception as e:  # noqa: BLE001
                        rec["result"] = "Exception" if type(e) is Exception else type(e).__name__
                    sim.current.op = None
                    rec["ret"] = sim.tick()
                    sim.yield_point("op.return")
            return run

        if len(sc["scripts"]) == 1:
            worker(0, sc["scripts"][0])()
        else:
            for ti, ops in enumerate(sc["scripts"]):
                sim.spawn(worker(ti, ops), "w%d" % ti, "work")


def _dup_release(scripts):
    seen = {}
    for ti, ops in enumerate(scripts):
        for op in ops:
            if op[0] == "rel":
                seen.setdefault(op[1], set()).add(ti)
    return any(len(v) > 1 for v in seen.values())


def linearizable(kind, cfg, history, observed):
    """DFS over linearisations consistent with the invoke/return order; observations must match the model."""
    ops = sorted(history, key=lambda r: r["inv"])
    n = len(ops)

    def rec(done, model_ops):
        if len(done) == n:
            return True
        for i in range(n):
            if i in done:
                continue
            o = ops[i]
            # o may be next only if no other pending op returned before o was invoked
            if any(j not in done and j != i and ops[j]["ret"] is not None and ops[j]["ret"] < o["inv"] for j in range(n)):
                continue
            m = MODELS[kind](cfg)
            ok = True
            for p in model_ops + [i]:
                res, disp = m.apply(ops[p]["op"] + ["no-handle"] if ops[p]["result"] == "no-handle" else ops[p]["op"])
                if p == i:
                    if res != ops[p]["result"] or disp != observed.get(ops[p]["id"], frozenset()):
                        ok = False
            if ok and rec(done | {i}, model_ops + [i]):
                return True
        return False

    return rec(frozenset(), [])


def refcount_invariants(history, log):
    """RefCountDisposable when one dependent is disposed by two threads at once.  The call that claimed the dependent does
    the release; a duplicate that arrives meanwhile returns at once, so the release (and with it the disposal of the
    underlying resource) can land after calls that were invoked later have returned - which no atomic-call model explains,
    and which the statement allows.  What it promises is checked directly instead: exactly once, only after the primary
    dispose() and a dispose of every dependent handed out before were invoked, and not forgotten at quiescence."""
    rel_t = [seq for seq, item, _ in log if item == "underlying"]
    if len(rel_t) > 1:
        return "underlying resource disposed %d times" % len(rel_t)
    gets = {r["op"][1]: r for r in history if r["op"][0] == "get"}
    rels = {}
    for r in history:
        if r["op"][0] == "rel" and r["result"] != "no-handle":
            rels.setdefault(r["op"][1], []).append(r)
    prim = [r for r in history if r["op"][0] == "dispose"]
    if rel_t:
        t = rel_t[0]
        by = [opid for seq, item, opid in log if item == "underlying"][0]
        t_inv = min([r["inv"] for r in history if r["id"] == by] + [t])  # the releasing call decided somewhere after its invocation
        if not any(r["inv"] < t for r in prim):
            return "underlying resource disposed before dispose() of the RefCountDisposable was called"
        for k, g in gets.items():
            if g["ret"] is not None and g["ret"] < t_inv and not any(r["inv"] < t for r in rels.get(k, [])):
                return "underlying resource disposed while dependent %s (handed out before) had not been disposed" % k
    else:
        settled = prim and all(any(r["inv"] > g["ret"] for r in rels.get(k, [])) for k, g in gets.items() if g["ret"] is not None)
        if settled and all(r["ret"] is not None for r in history):
            return "dispose() was called and every dependent was disposed, yet the underlying resource was never disposed"
    for r in history:
        if r["op"][0] == "is_disposed" and r["result"] and not (rel_t and rel_t[0] < r["ret"]) and not any(p["inv"] < r["ret"] for p in prim):
            return "is_disposed reported True before anything was disposed"
    return None


def execute(sc, pid):
    out = Outcome()
    sched = sc["sched"]
    cps = sc.get("cps")
    multi = len(sc["scripts"]) > 1
    kw = {"opcode_files": ("reactivex/disposable/",)} if sched.get("opcodes") else {}
    if cps is None and multi and sched["k"] > 0:
        dry = Work(sc)
        sim = th.run_sim(dry.body, sched["seed"], (), record=True, **kw)
        cps = th.choose_cps(random.Random(sched["seed"] ^ 0x5DEECE66D), sim.sites, sim.marker or 0, sim.steps, sched["k"])
        out.evals += 1
    cps = cps or []
    work = Work(sc)
    sim = th.run_sim(work.body, sched["seed"], cps, **kw)
    if kw:
        out.probes["bytecode_level_points"] += 1
    out.steps = sim.steps
    out.faults.update({k: v for k, v in sim.faults.items() if v})
    out.sim_time = sim.seconds()
    dig = th.interleaving_digest(sim)
    out.digest = (sc["kind"], repr(sc["scripts"]), dig)
    out.nontrivial = multi and len(dig) > len(sc["scripts"])
    out.probes["kind:" + sc["kind"]] += 1
    if multi:
        out.probes["threads_%d" % len(sc["scripts"])] += 1
    desc = "kind=%s items(falsy)=%s scripts=%s%s cps=%s" % (sc["kind"], {k: v for k, v in sc["items"].items() if v}, sc["scripts"],
                                                            (" reenter=%s" % sc["reenter"]) if sc.get("reenter") else "", cps)
    if sc.get("reenter"):
        out.probes["reentrant_item"] += 1
    if sim.failure:
        out.bad(sim.failure[0], "%s: %s" % (desc, sim.failure[1]))
    elif sim.thread_errors:
        out.bad("thread-exception", "%s: %r" % (desc, sim.thread_errors[0]))
    else:
        observed = {}
        for seq, item, opid in work.log:
            observed.setdefault(opid, set()).add(item)
        counts = {}
        for seq, item, opid in work.log:
            counts[item] = counts.get(item, 0) + 1
        twice = [i for i, c in counts.items() if c > 1]
        if twice:
            out.bad("disposed-twice", "%s: %s disposed %d times (by operations %s)" % (desc, twice[0], counts[twice[0]], [o for _, i, o in work.log if i == twice[0]]))
        elif sc["kind"] == "refcount" and _dup_release(sc["scripts"]):
            out.probes["dependent_disposed_by_two_threads"] += 1
            v = refcount_invariants(work.history, work.log)
            if v:
                hist = [(r["id"], r["op"], r["inv"], r["ret"], r["result"], sorted(observed.get(r["id"], []))) for r in work.history]
                out.bad("refcount-rule", "%s: %s; history (id, op, invoke, return, result, disposed): %s" % (desc, v, hist))
        elif not linearizable(sc["kind"], {"reenter": sc.get("reenter")}, work.history, {k: frozenset(v) for k, v in observed.items()}):
            hist = [(r["id"], r["op"], r["inv"], r["ret"], r["result"], sorted(observed.get(r["id"], []))) for r in work.history]
            out.bad("not-linearizable", "%s: no sequential order of the calls explains (id, op, invoke, return, result, disposed): %s" % (desc, hist))
    if out.viol:
        w = dict(sc)
        w["cps"] = cps
        out.witness = w
    out.info = {"kind": sc["kind"], "scripts": sc["scripts"], "cps": cps, "switches": len(dig)}
    return out
