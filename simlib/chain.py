"""Single-source operator chains checked against the list/event models (C05, C06, C08b)."""
from __future__ import annotations

from simlib import catalog, models, vt
from simlib.core import Outcome


def visible(spec, t0):
    """The conforming event list a subscriber at t0 sees from a sim source."""
    kind = spec["kind"]
    out = []
    for e in spec["events"]:
        t, k = e[0], e[1]
        v = vt.dec(e[2]) if len(e) > 2 else None
        if k == "E" and not isinstance(v, Exception):
            v = vt.SourceError(v)
        if kind == "hot":
            if t < t0:
                continue
            at = t
        elif kind == "cold":
            at = t0 + t
        elif kind == "syncthen":
            at = t0 if not out else t0 + t  # the first event inside subscribe(), the rest like a cold source
        else:
            at = t0
        out.append((at, k, v))
        if k in "CE":
            break
    return out


def gen(rng, names, tier, falsy_p=0.35, depth_choices=(1, 1, 1, 2, 2, 3), clocks=("test", "test", "historical", "vts"), feedback_p=0.0):
    if feedback_p and rng.random() < feedback_p:
        return gen_feedback(rng, names, falsy_p)
    ctx = catalog.Ctx(rng, hot_p=0.5, falsy_p=falsy_p, sync_p=0.1)
    src = ctx.new_source(maxn=7 if tier == "thorough" else 6)
    chain = []
    for _ in range(rng.choice(depth_choices)):
        name = rng.choice(names)
        a = catalog.ROWS[name].gen(ctx)
        if name in ("distinct", "distinct_until_changed") and a["key"] is None and any(n["op"] == "materialize" for n in chain):
            # Notification.__eq__ (string based, ints widened to float) is not part of any property: compare by key instead
            a["key"] = ctx.fn("key")
        chain.append({"op": name, "id": ctx.next_id(), "a": a})
    sc = {"clock": rng.choice(clocks), "sources": ctx.sources, "chain": chain, "sub_t": 205, "horizon": 1500}
    off = rng.choice([None, None, None, 37, 123, 411])
    if off:
        sc["sub2_t"] = 205 + off  # the same observable object is subscribed a second time
    return sc


FEEDBACK_OPS = ("map", "map_none", "map_indexed", "filter", "filter_indexed", "take", "skip", "take_while", "take_while_indexed", "skip_while",
                "skip_while_indexed", "distinct", "distinct_until_changed", "pairwise", "starmap", "pluck", "element_at", "as_observable")


def gen_feedback(rng, names, falsy_p=0.35):
    """A subscriber that feeds the source: it pushes the next value into the Subject it is (indirectly) subscribed to from inside
    every on_next it receives.  Each value is handed over while the previous one is still being delivered, which is legal and is
    what a recursive pipeline does; the operators in between must have settled their own state before they call downstream."""
    ctx = catalog.Ctx(rng, hot_p=0.0, falsy_p=falsy_p, sync_p=0.0)
    ok = [n for n in names if n in FEEDBACK_OPS]
    chain = []
    for _ in range(rng.choice([1, 1, 2])):
        name = rng.choice(ok)
        chain.append({"op": name, "id": ctx.next_id(), "a": catalog.ROWS[name].gen(ctx)})
    vals = [vt.gen_value(rng, falsy_p) for _ in range(rng.randrange(1, 8))]
    if rng.random() < 0.6:
        vals = list(range(len(vals)))
    return {"clock": rng.choice(["test", "vts"]), "sources": [], "chain": chain, "feedback": vals, "sub_t": 205, "horizon": 600}


def execute_feedback(sc, MODELS):
    from reactivex.subject import Subject
    out = Outcome()
    w = vt.World(sc["clock"])
    src = Subject()
    obs = src
    for node in sc["chain"]:
        obs = catalog.ROWS[node["op"]].build(w, node["id"], node["a"], [obs])
    vals = [vt.dec(v) for v in sc["feedback"]]
    rec = vt.Recorder(w, "r", follow=False)
    sent = [0]

    def feed(_v=None):
        if sent[0] < len(vals):
            sent[0] += 1
            src.on_next(vals[sent[0] - 1])

    rec.on_each = feed
    t0, T = sc["sub_t"], sc["sub_t"] + 10
    w.at(t0, lambda: rec.subscribe(obs))
    w.at(T, feed)
    w.at(T + 10, src.on_completed)
    w.run(sc["horizon"])

    def model(k, done):
        evs = [(float(T), "N", v) for v in vals[:k]] + ([(float(T + 10), "C", None)] if done else [])
        for node in sc["chain"]:
            evs = MODELS[node["op"]](node["a"], evs, t0)
        return evs

    out.digest = ("feedback", tuple(n["op"] for n in sc["chain"]), rec.kinds(), len(vals))
    out.sim_time = sc["horizon"]
    out.probes["feedback_mode"] += 1
    g = vt.grammar_violation(rec)
    if g:
        out.bad("grammar", g)
    if w.escaped:
        out.bad("escaped", repr(w.escaped[0][2:]))
    try:
        k = 1 if vals else 0
        for _ in range(len(vals) + 2):
            # every element that reaches the subscriber makes it hand over one more value (while any are left)
            k2 = min(len(vals), 1 + sum(1 for e in model(k, False) if e[1] == "N")) if vals else 0
            if k2 == k:
                break
            k = k2
        want = models.norm(model(k, True))
    except (models.Tie,) + _BENIGN:
        out.probes["ill_typed_skipped"] += 1
        return out
    got = models.norm(rec.events_kv())
    out.nontrivial = len(got) >= 2
    if sent[0] != k:
        out.bad("model-mismatch", "feedback chain=%s values=%s: the subscriber handed over %d values, the list model says %d (received %s)" % (
            [(n["op"], n["a"]) for n in sc["chain"]], sc["feedback"], sent[0], k, got))
    elif not _same(want, got, False):
        out.bad("model-mismatch", "feedback chain=%s values=%s expected=%s got=%s" % ([(n["op"], n["a"]) for n in sc["chain"]], sc["feedback"], want, got))
    out.info = {"got": [list(map(_j, g_)) for g_ in got][:8]}
    return out


def execute(sc, MODELS, compare_times=True):
    if "feedback" in sc:
        return execute_feedback(sc, MODELS)
    out = Outcome()
    w = vt.World(sc["clock"])
    vt.make_sources(w, sc["sources"])
    spec = sc["sources"][0]
    obs = w.sources[spec["id"]]
    for node in sc["chain"]:
        obs = catalog.ROWS[node["op"]].build(w, node["id"], node["a"], [obs])
    rec = vt.Recorder(w, "r", follow=False)
    t0 = sc["sub_t"]
    w.at(t0, lambda: rec.subscribe(obs))
    rec2 = None
    if sc.get("sub2_t") is not None:
        rec2 = vt.Recorder(w, "r2", follow=False)
        w.at(sc["sub2_t"], lambda: rec2.subscribe(obs))
    w.run(sc["horizon"])
    # model
    evs = visible(spec, t0)
    ill_typed = False
    tie = False
    try:
        for node in sc["chain"]:
            evs = MODELS[node["op"]](node["a"], evs, t0)
    except _BENIGN:
        ill_typed = True  # the model itself cannot evaluate an ill-typed program: nothing to compare
    except models.Tie:
        tie = True
    got = models.norm(rec.events_kv())
    out.digest = (tuple(n["op"] for n in sc["chain"]), tuple(got), spec["kind"])
    out.sim_time = sc["horizon"]
    out.info = {"got": [list(map(_j, g)) for g in got][:8]}
    g = vt.grammar_violation(rec)
    if g:
        out.bad("grammar", g)
    if w.escaped:
        out.bad("escaped", repr(w.escaped[0][2:]))
    if ill_typed or tie:
        out.probes["tie_skipped" if tie else "ill_typed_skipped"] += 1
        return out
    want = models.norm(evs)
    out.nontrivial = len(got) >= 2
    for n in sc["chain"]:
        out.probes["op:" + n["op"]] += 1
    if any(e[1] == "E" for e in want):
        out.probes["error_terminal"] += 1
    if not any(e[1] in "CE" for e in want):
        out.probes["no_terminal"] += 1
    if not _same(want, got, compare_times):
        out.bad("model-mismatch", "chain=%s expected=%s got=%s" % (
            [(n["op"], n["a"]) for n in sc["chain"]], want, got))
    if rec2 is not None and not out.viol:
        t2 = sc["sub2_t"]
        try:
            evs2 = visible(spec, t2)
            for node in sc["chain"]:
                evs2 = MODELS[node["op"]](node["a"], evs2, t2)
        except (models.Tie,) + _BENIGN:
            return out
        out.probes["second_subscription_checked"] += 1
        g2 = vt.grammar_violation(rec2)
        if g2:
            out.bad("grammar", g2)
        want2, got2 = models.norm(evs2), models.norm(rec2.events_kv())
        if not _same(want2, got2, compare_times):
            out.bad("model-mismatch", "chain=%s [second subscription of the same observable at t=%s] expected=%s got=%s" % (
                [(n["op"], n["a"]) for n in sc["chain"]], t2, want2, got2))
    return out


_BENIGN = (TypeError, IndexError, KeyError, ValueError, AttributeError, ZeroDivisionError)


def _j(x):
    return x if isinstance(x, (int, float, str, type(None))) else repr(x)


def _same(want, got, times=True):
    if len(want) != len(got):
        return False
    for a, b in zip(want, got):
        if times and a[0] != b[0]:
            return False
        if a[1] != b[1]:
            return False
        if a[1] == "E":
            if a[2] == ("exc", "Exception"):
                if b[2][0] != "exc":
                    return False
            elif a[2] != b[2]:
                return False
        elif a[2] != b[2]:
            return False
    return True
