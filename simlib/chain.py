"""Single-source operator chains checked against the list/event models (C05, C06, C08b)."""
from __future__ import annotations

from simlib import catalog, models, vt
from simlib.core import Outcome


def visible(spec, t0):
    """The conforming event list a subscriber at t0 sees from a sim source."""
    kind = spec["kind"]
    out = []
    for e in spec["events"]:
        t, k = e[0], e[1]
        v = vt.dec(e[2]) if len(e) > 2 else None
        if k == "E" and not isinstance(v, Exception):
            v = vt.SourceError(v)
        if kind == "hot":
            if t < t0:
                continue
            at = t
        elif kind == "cold":
            at = t0 + t
        else:
            at = t0
        out.append((at, k, v))
        if k in "CE":
            break
    return out


def gen(rng, names, tier, falsy_p=0.35, depth_choices=(1, 1, 1, 2, 2, 3), clocks=("test", "test", "historical", "vts")):
    ctx = catalog.Ctx(rng, hot_p=0.5, falsy_p=falsy_p, sync_p=0.1)
    src = ctx.new_source(maxn=7 if tier == "thorough" else 6)
    chain = []
    for _ in range(rng.choice(depth_choices)):
        name = rng.choice(names)
        a = catalog.ROWS[name].gen(ctx)
        if name in ("distinct", "distinct_until_changed") and a["key"] is None and any(n["op"] == "materialize" for n in chain):
            # Notification.__eq__ (string based, ints widened to float) is not part of any property: compare by key instead
            a["key"] = ctx.fn("key")
        chain.append({"op": name, "id": ctx.next_id(), "a": a})
    sc = {"clock": rng.choice(clocks), "sources": ctx.sources, "chain": chain, "sub_t": 205, "horizon": 1500}
    off = rng.choice([None, None, None, 37, 123, 411])
    if off:
        sc["sub2_t"] = 205 + off  # the same observable object is subscribed a second time
    return sc


def execute(sc, MODELS, compare_times=True):
    out = Outcome()
    w = vt.World(sc["clock"])
    vt.make_sources(w, sc["sources"])
    spec = sc["sources"][0]
    obs = w.sources[spec["id"]]
    for node in sc["chain"]:
        obs = catalog.ROWS[node["op"]].build(w, node["id"], node["a"], [obs])
    rec = vt.Recorder(w, "r", follow=False)
    t0 = sc["sub_t"]
    w.at(t0, lambda: rec.subscribe(obs))
    rec2 = None
    if sc.get("sub2_t") is not None:
        rec2 = vt.Recorder(w, "r2", follow=False)
        w.at(sc["sub2_t"], lambda: rec2.subscribe(obs))
    w.run(sc["horizon"])
    # model
    evs = visible(spec, t0)
    ill_typed = False
    tie = False
    try:
        for node in sc["chain"]:
            evs = MODELS[node["op"]](node["a"], evs, t0)
    except _BENIGN:
        ill_typed = True  # the model itself cannot evaluate an ill-typed program: nothing to compare
    except models.Tie:
        tie = True
    got = models.norm(rec.events_kv())
    out.digest = (tuple(n["op"] for n in sc["chain"]), tuple(got), spec["kind"])
    out.sim_time = sc["horizon"]
    out.info = {"got": [list(map(_j, g)) for g in got][:8]}
    g = vt.grammar_violation(rec)
    if g:
        out.bad("grammar", g)
    if w.escaped:
        out.bad("escaped", repr(w.escaped[0][2:]))
    if ill_typed or tie:
        out.probes["tie_skipped" if tie else "ill_typed_skipped"] += 1
        return out
    want = models.norm(evs)
    out.nontrivial = len(got) >= 2
    for n in sc["chain"]:
        out.probes["op:" + n["op"]] += 1
    if any(e[1] == "E" for e in want):
        out.probes["error_terminal"] += 1
    if not any(e[1] in "CE" for e in want):
        out.probes["no_terminal"] += 1
    if not _same(want, got, compare_times):
        out.bad("model-mismatch", "chain=%s expected=%s got=%s" % (
            [(n["op"], n["a"]) for n in sc["chain"]], want, got))
    if rec2 is not None and not out.viol:
        t2 = sc["sub2_t"]
        try:
            evs2 = visible(spec, t2)
            for node in sc["chain"]:
                evs2 = MODELS[node["op"]](node["a"], evs2, t2)
        except (models.Tie,) + _BENIGN:
            return out
        out.probes["second_subscription_checked"] += 1
        g2 = vt.grammar_violation(rec2)
        if g2:
            out.bad("grammar", g2)
        want2, got2 = models.norm(evs2), models.norm(rec2.events_kv())
        if not _same(want2, got2, compare_times):
            out.bad("model-mismatch", "chain=%s [second subscription of the same observable at t=%s] expected=%s got=%s" % (
                [(n["op"], n["a"]) for n in sc["chain"]], t2, want2, got2))
    return out


_BENIGN = (TypeError, IndexError, KeyError, ValueError, AttributeError, ZeroDivisionError)


def _j(x):
    return x if isinstance(x, (int, float, str, type(None))) else repr(x)


def _same(want, got, times=True):
    if len(want) != len(got):
        return False
    for a, b in zip(want, got):
        if times and a[0] != b[0]:
            return False
        if a[1] != b[1]:
            return False
        if a[1] == "E":
            if a[2] == ("exc", "Exception"):
                if b[2][0] != "exc":
                    return False
            elif a[2] != b[2]:
                return False
        elif a[2] != b[2]:
            return False
    return True
