"""Generic pipeline scenarios (C01, C02, C03, C09, C40 ...): generation, execution
and the invariants that hold for any program."""
from __future__ import annotations

from simlib import catalog, vt
from simlib.core import Outcome


def gen(rng, depth, allow=None, clock=None, nonconforming_p=0.0, rogue_p=0.0, max_sources=4, hot_p=0.5, sync_p=0.1,
        kinds=None, sub_t=None, nary_p=0.3):
    ctx = catalog.Ctx(rng, hot_p=hot_p, falsy_p=0.3, nonconforming_p=nonconforming_p, rogue_p=rogue_p, sync_p=sync_p, kinds=kinds)
    prog = catalog.gen_program(ctx, depth, allow, max_sources, nary_p)
    return {
        "clock": clock or rng.choice(["test", "test", "test", "historical", "vts"]),
        "sources": ctx.sources,
        "program": prog,
        "sub_t": sub_t if sub_t is not None else rng.choice([200, 200, 205]),
        "horizon": 2500,
        "as_observer": rng.random() < 0.3,  # the subscriber is handed to subscribe() as an observer object (else: three callbacks)
    }


class Run:
    """One executed pipeline scenario."""

    def __init__(self, sc, build=None, follow=True, taps=None):
        self.sc = sc
        w = self.w = vt.World(sc.get("clock", "test"))
        w.fault_cls = vt.FAULT_CLASSES[sc.get("exc")]
        w.as_observer = bool(sc.get("as_observer"))
        vt.make_sources(w, sc["sources"])
        w.set_faults(sc.get("faults"))
        self.build_error = None
        try:
            self.obs = build(w, sc["program"]) if build else catalog.build(w, sc["program"], taps)
        except Exception as e:  # construction-time failure of an ill-typed program
            self.build_error = e
            self.obs = None
        d = sc.get("dispose") or {}
        self.rec = vt.Recorder(w, "r", follow=follow, dispose_at=d.get("note"), raise_at=sc.get("sub_raise"))
        self.rec.raise_on_terminal = bool(sc.get("raise_on_terminal"))
        self.rec.feed_on_terminal = sc.get("feed_on_terminal")
        self.rec.dispose_children = sc.get("dispose_children", True)
        self.rec.drop_children_on_terminal = sc.get("drop_children_on_terminal", False)
        self.sub_error = None

        def do_sub():
            try:
                self.rec.subscribe(self.obs)
            except vt.Budget:
                raise
            except Exception as e:
                self.sub_error = e

        if self.obs is not None:
            w.at(sc["sub_t"], do_sub)
        if "t" in d:
            w.at(d["t"], self.dispose, tie=d.get("tie", "early"))
        if "site" in d:
            site, k = d["site"], d["k"]

            def hook(s, kk):
                if s == site and kk == k:
                    self.dispose()

            w.after_call = hook
        self.cut_short = False
        try:
            if sc.get("raise_on_terminal"):
                with vt.counting_subscribes():
                    w.run(sc["horizon"])
            else:
                w.run(sc["horizon"])
        except vt.Budget:
            # a loop that re-schedules itself within one virtual instant and that nothing ends any more (e.g. while_do over a
            # synchronous source whose downstream take() was cut off by a raising subscriber): the run is cut short, what was
            # recorded up to here is still judged
            self.cut_short = True

    def dispose(self):
        self.rec.dispose()

    # ------------------------------------------------------------ invariants
    def grammar(self, out):
        for r in self.rec.all_recorders():
            g = vt.grammar_violation(r)
            if g:
                out.bad("grammar", "%s program=%s" % (g, catalog.ops_of(self.sc["program"])))
                return

    def injected_escapes(self):
        return [e for e in self.w.escaped if isinstance(e[3], vt.InjectedFault)]

    def all_terminated(self):
        """root has its terminal and every window/group handed out has terminated or been unsubscribed"""
        rs = list(self.rec.all_recorders())
        if self.rec.terminal() is None:
            return None
        for r in rs[1:]:
            if r.terminal() is None and r.disp_ret_seq is None:
                return None
        last = max((r.terminal() or (r.disp_ret_seq, r.disp_t))[0] for r in rs if (r.terminal() or r.disp_ret_seq))
        t_last = max(((r.terminal() or (0, r.disp_t))[1] or 0) for r in rs)
        return last, t_last

    def open_sources(self):
        return [(s.sid, rec.as_tuple()) for s in self.w.sources.values() for rec in s.subs if rec.open()]


def signature(sc, rule, msg):
    if "chain" in sc:
        return {"rule": rule, "ops": sorted(set(n["op"] for n in sc["chain"]))}
    prog = sc.get("program")
    return {"rule": rule, "ops": sorted(set(catalog.ops_of(prog))) if isinstance(prog, dict) else []}
