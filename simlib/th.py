"""TH engine: controlled-thread simulation (baton passing).

Simulated threads are real OS threads, exactly one of which is unparked at any time;
who runs next is always the simulator's decision, drawn from a PRNG seeded by the
scenario.  Yield points: every operation on a simulated primitive and every `line` /
`return` trace event in frames whose file lies under the repo's reactivex/ directory.
The clock is an integer number of microseconds that only moves when nothing is
runnable (jump to the next timer) or when a drift fault fires.  See DESIGN.md 3.2.
"""
from __future__ import annotations

import _thread
import datetime
import heapq
import os
import random
import sys
import threading
import types

from simlib import core

REAL_LOCK = _thread.allocate_lock
REAL_THREAD = threading.Thread
REPO = core.REPO
EPOCH = datetime.datetime.fromtimestamp(0, tz=datetime.timezone.utc)
BASE_US = 1_000_000_000_000  # simulated epoch offset: 1e6 s


class SimKilled(SystemExit):
    """Raised inside a parked simulated thread at teardown.  (SystemExit: asyncio's Handle._run hands every other
    BaseException to the loop's exception handler and carries on - the killed loop thread would never end.)"""


class StepLimit(SystemExit):
    """Step budget of one run exhausted."""


class Sim:
    def __init__(self, seed, cps=(), record_sites=False, spurious_p=0.0, drift_p=0.0, max_steps=400000, trace_extra=()):
        self.rng = random.Random(seed)
        self.threads = []
        self.current = None
        self.now = BASE_US
        self.timers = []
        self.tseq = 0
        self.steps = 0
        # change points: (thread name, site, n) = pre-empt when that thread reaches that site for the n-th time
        self.watch = {}
        for tname, site, n in cps:
            self.watch.setdefault((tname, _site(site)), set()).add(n)
        self.occ = {}
        self.step_cost = 1  # every yield point costs one simulated microsecond, so sleepers wake while others are mid-run
        self.record_sites = record_sites
        self.sites = []
        self.marker = None  # step at which the workload proper started
        self.spurious_p = spurious_p
        self.drift_p = drift_p
        self.max_steps = max_steps
        self.trace_prefixes = (os.path.join(REPO, "reactivex"),) + tuple(trace_extra)
        self.opcode_files = ()  # file-name fragments whose frames yield at every bytecode instead of every line
        self._root = REPO.rstrip("/") + "/"
        self._cut = len(self._root)
        self.switch_log = []  # (step, from, to, site) at every context switch
        self.done = REAL_LOCK()
        self.done.acquire()
        self.failure = None
        self.killing = False
        self.faults = {"preempt": 0, "spurious_wakeup": 0, "clock_drift": 0, "timer_fired": 0, "stall": 0}
        self.stall_p = 0.0
        self.thread_errors = []
        self.seq = 0  # global event sequence number for harness logs
        self.finished = False
        self.trace_hook = None  # optional (frame, event) callback for call/return of traced frames

    # ------------------------------------------------------------ clock
    def utcnow(self):
        return EPOCH + datetime.timedelta(microseconds=self.now)

    def seconds(self):
        return (self.now - BASE_US) / 1e6

    def tick(self):
        self.seq += 1
        return self.seq

    def add_timer(self, delay_s, fn):
        self.tseq += 1
        due = self.now + max(0, int(round(delay_s * 1e6)))
        heapq.heappush(self.timers, (due, self.tseq, fn))
        return due

    def _fire_due(self):
        while self.timers and self.timers[0][0] <= self.now:
            _, _, fn = heapq.heappop(self.timers)
            self.faults["timer_fired"] += 1
            fn()

    # ------------------------------------------------------------ threads
    def spawn(self, fn, name=None, kind="lib"):
        t = SimThread(self, fn, name or "T%d" % len(self.threads), kind)
        self.threads.append(t)
        t.real.start()
        return t

    def runnable(self):
        return [t for t in self.threads if t.state == "ready"]

    def switch_from(self, me, site=None, exclude_me=False):
        """Called by the baton holder (its own state already updated): choose the next thread and hand over."""
        while True:
            self._fire_due()
            r = self.runnable()
            if exclude_me and len(r) > 1:
                r = [t for t in r if t is not me]
            if r:
                nxt = r[self.rng.randrange(len(r))] if len(r) > 1 else r[0]
                break
            if self.timers:
                due = self.timers[0][0]
                if due > self.now:
                    self.now = due
                continue
            # quiescent
            self.current = None
            self.finished = True
            stuck = [t for t in self.threads if t.state == "blocked" and t.kind == "work"]
            if stuck and self.failure is None:
                self.failure = ("deadlock", ", ".join("%s blocked on %s" % (t.name, t.blocked_on) for t in stuck))
            self.done.release()
            if me is not None and me.state != "done":
                me.park()
            return
        self.current = nxt
        if nxt is me:
            return
        self.switch_log.append((self.steps, me.name if me else None, nxt.name, site))
        nxt.unpark()
        if me is not None and me.state != "done":
            me.park()

    def yield_point(self, site=None):
        if self.killing:
            return
        me = self.current
        self.steps += 1
        self.now += self.step_cost
        if self.steps > self.max_steps:
            if self.failure is None:
                self.failure = ("step-limit", "more than %d steps" % self.max_steps)
            raise StepLimit()
        hit = False
        if self.record_sites:
            key = (me.name, site)
            c = self.occ.get(key, 0) + 1
            self.occ[key] = c
            self.sites.append((self.steps, me.name, site, c))
        elif self.watch:
            key = (me.name, site)
            ns = self.watch.get(key)
            if ns is not None:
                c = self.occ.get(key, 0) + 1
                self.occ[key] = c
                hit = c in ns
        if self.timers and self.timers[0][0] <= self.now:
            self._fire_due()
        if hit:
            if self.drift_p and self.rng.random() < self.drift_p:
                self.now += self.rng.choice([1000, 50_000, 1_000_000])  # the descheduled thread loses time
                self.faults["clock_drift"] += 1
            if self.stall_p and self.rng.random() < self.stall_p:
                # a stalled thread: descheduled for a stretch of simulated time, whatever else is runnable (timers fire meanwhile)
                self.faults["stall"] += 1
                self.add_timer(self.rng.choice([300, 1500, 6000, 40_000]) / 1e6, lambda: self.wake(me))
                self.block("stall")  # (state "blocked", blocked_on "stall": not waiting for anything of its own)
            elif len(self.runnable()) >= 1:
                self.faults["preempt"] += 1
                me.state = "ready"
                self.switch_from(me, site, exclude_me=True)
                me.state = "running"

    def block(self, on):
        me = self.current
        me.state = "blocked"
        me.blocked_on = on
        self.switch_from(me, "block")
        me.state = "running"
        me.blocked_on = None

    def wake(self, t):
        if t.state == "blocked":
            t.state = "ready"

    def sleep(self, seconds):
        """Harness helper: the calling simulated thread sleeps simulated time."""
        me = self.current
        self.add_timer(seconds, lambda: self.wake(me))
        self.block("sleep")

    def mark(self):
        self.marker = self.steps

    # ------------------------------------------------------------ run
    def run(self, main, wall=150.0):
        t = self.spawn(main, "main", "work")
        self.current = t
        t.unpark()
        ok = self.done.acquire(timeout=wall)
        try:
            if not ok:
                raise core.HarnessError("TH run exceeded the wall timeout (simulator stuck)")
        finally:
            self.teardown()
        return self

    def teardown(self):
        self.killing = True
        for t in self.threads:
            if t.state != "done" and t.real.is_alive():
                t.unpark()
                t.real.join(timeout=5.0)

    # ------------------------------------------------------------ tracing
    def tracer(self, frame, event, arg):
        fn = frame.f_code.co_filename
        if not fn.startswith(self.trace_prefixes):
            return None
        if self.opcode_files and any(f in fn for f in self.opcode_files):
            frame.f_trace_opcodes = True  # threads switch between bytecodes: a read-modify-write inside one line is a window too
        if self.trace_hook is not None:
            return self.trace_hook(frame, event, arg)
        return self.local_tracer

    def local_tracer(self, frame, event, arg):
        if event == "line" or event == "return":
            fn = frame.f_code.co_filename
            self.yield_point((fn[self._cut:] if fn.startswith(self._root) else fn[-40:], frame.f_lineno))
        elif event == "opcode":
            fn = frame.f_code.co_filename
            self.yield_point((fn[self._cut:] if fn.startswith(self._root) else fn[-40:], frame.f_lineno, frame.f_lasti))
        return self.local_tracer


class SimThread:
    def __init__(self, sim, fn, name, kind):
        self.sim, self.fn, self.name, self.kind = sim, fn, name, kind
        self.state = "ready"
        self.blocked_on = None
        self.gate = REAL_LOCK()
        self.gate.acquire()
        self.real = REAL_THREAD(target=self._boot, name="sim-" + name, daemon=True)
        self.exc = None

    def park(self):
        self.gate.acquire()
        if self.sim.killing:
            raise SimKilled()

    def unpark(self):
        self.gate.release()

    def _boot(self):
        self.gate.acquire()
        if self.sim.killing:
            self.state = "done"
            return
        self.state = "running"
        sys.settrace(self.sim.tracer)
        try:
            self.fn()
        except (SimKilled, StepLimit):
            pass
        except BaseException as e:  # noqa: BLE001
            self.exc = e
            self.sim.thread_errors.append((self.name, self.kind, e))
        finally:
            sys.settrace(None)
            self.state = "done"
            if not self.sim.killing:
                try:
                    self.sim.switch_from(self, "exit")
                except SimKilled:
                    pass


# ------------------------------------------------------------------ simulated primitives

def make_shim(sim):
    class SLock:
        def __init__(self):
            self.owner = None
            self.waiters = []

        def acquire(self, blocking=True, timeout=-1):
            if sim.killing:
                return True
            sim.yield_point("lock.acquire")
            me = sim.current
            while self.owner is not None:
                if not blocking:
                    return False
                self.waiters.append(me)
                sim.block(self)
            self.owner = me
            return True

        def release(self):
            if sim.killing:
                return
            self.owner = None
            ws, self.waiters = self.waiters, []
            for w in ws:
                sim.wake(w)
            sim.yield_point("lock.release")

        def locked(self):
            return self.owner is not None

        def __enter__(self):
            self.acquire()
            return True

        def __exit__(self, *a):
            self.release()

        def __repr__(self):
            return "<SimLock owner=%s>" % (self.owner.name if self.owner else None)

    class SRLock(SLock):
        def __init__(self):
            super().__init__()
            self.count = 0

        def acquire(self, blocking=True, timeout=-1):
            if sim.killing:
                return True
            me = sim.current
            if self.owner is me:
                self.count += 1
                return True
            r = super().acquire(blocking, timeout)
            if r:
                self.count = 1
            return r

        def release(self):
            if sim.killing:
                return
            if self.owner is not sim.current:
                raise RuntimeError("cannot release un-acquired lock")
            self.count -= 1
            if self.count == 0:
                super().release()

        def _is_owned(self):
            return self.owner is sim.current

    class SCondition:
        def __init__(self, lock=None):
            self.lock = lock if lock is not None else SRLock()
            self.waiting = []
            self.acquire = self.lock.acquire
            self.release = self.lock.release

        def __enter__(self):
            return self.lock.__enter__()

        def __exit__(self, *a):
            return self.lock.__exit__(*a)

        def wait(self, timeout=None):
            if sim.killing:
                return True
            me = sim.current
            saved = getattr(self.lock, "count", 1)
            if isinstance(self.lock, SRLock):
                self.lock.count = 1
            token = [me, False]
            self.waiting.append(token)
            self.lock.release()
            if token in self.waiting:  # not notified while releasing the lock
                if timeout is not None:
                    def fire():
                        if token in self.waiting:
                            self.waiting.remove(token)
                            sim.wake(me)

                    sim.add_timer(timeout, fire)
                if sim.spurious_p and sim.rng.random() < sim.spurious_p:
                    # spurious wake-up (legal for Condition.wait): return without notification
                    sim.faults["spurious_wakeup"] += 1
                    self.waiting.remove(token)
                else:
                    sim.block(self)
            self.lock.acquire()
            if isinstance(self.lock, SRLock):
                self.lock.count = saved
            return token[1]

        def wait_for(self, predicate, timeout=None):
            r = predicate()
            while not r:
                self.wait(timeout)
                r = predicate()
                if timeout is not None:
                    break
            return r

        def notify(self, n=1):
            if sim.killing:
                return
            for _ in range(n):
                if self.waiting:
                    tok = self.waiting.pop(0)
                    tok[1] = True
                    sim.wake(tok[0])

        def notify_all(self):
            self.notify(len(self.waiting))

    class SEvent:
        def __init__(self):
            self.flag = False
            self.waiters = []

        def is_set(self):
            return self.flag

        def set(self):
            if sim.killing:
                return
            sim.yield_point("event.set")
            self.flag = True
            ws, self.waiters = self.waiters, []
            for w in ws:
                sim.wake(w[0])

        def clear(self):
            self.flag = False

        def wait(self, timeout=None):
            if sim.killing:
                return True
            sim.yield_point("event.wait")
            if self.flag:
                return True
            me = sim.current
            tok = [me]
            self.waiters.append(tok)
            if timeout is not None:
                def fire():
                    if tok in self.waiters:
                        self.waiters.remove(tok)
                        sim.wake(me)

                sim.add_timer(timeout, fire)
            sim.block(self)
            return self.flag

    class SThread:
        def __init__(self, group=None, target=None, name=None, args=(), kwargs=None, daemon=None):
            self.target, self.args, self.kwargs = target, args, kwargs or {}
            self.daemon = daemon
            self.name = name
            self.t = None

        def run(self):
            if self.target:
                self.target(*self.args, **self.kwargs)

        def start(self):
            if sim.killing:
                return
            self.t = sim.spawn(self.run, self.name)
            sim.yield_point("thread.start")

        def is_alive(self):
            return self.t is not None and self.t.state != "done"

        def join(self, timeout=None):
            while self.is_alive() and not sim.killing:
                sim.sleep(0.001)

        @property
        def ident(self):
            return self.t.real.ident if self.t else None

    class STimer(SThread):
        def __init__(self, interval, function, args=None, kwargs=None):
            super().__init__()
            self.interval, self.function = interval, function
            self.fargs, self.fkwargs = args or [], kwargs or {}
            self.cancelled = False
            self.fired = False

        def start(self):
            if sim.killing:
                return

            def body():
                if not self.cancelled:
                    self.fired = True
                    self.function(*self.fargs, **self.fkwargs)

            def due():
                if not self.cancelled:
                    self.t = sim.spawn(body, "timer")

            sim.add_timer(self.interval, due)
            sim.yield_point("timer.start")

        def cancel(self):
            if sim.killing:
                return
            sim.yield_point("timer.cancel")
            self.cancelled = True

    class SFuture:
        """concurrent.futures.Future look-alike for the simulated executor / thread-safe asyncio scheduler."""

        def __init__(self):
            self.ev = SEvent()
            self._result = None
            self._cancelled = False
            self._running = False

        def set_result(self, v):
            self._result = v
            self.ev.set()

        def result(self, timeout=None):
            self.ev.wait(timeout)
            return self._result

        def cancel(self):
            if self._running or self.ev.is_set():
                return False
            self._cancelled = True
            return True

        def cancelled(self):
            return self._cancelled

        def done(self):
            return self.ev.is_set() or self._cancelled

    class SExecutor:
        def __init__(self, max_workers=None, **kw):
            self.max_workers = max_workers

        def submit(self, fn, *a, **kw):
            fut = SFuture()

            def body():
                if fut._cancelled:
                    return
                fut._running = True
                fut.set_result(fn(*a, **kw))

            if not sim.killing:
                sim.spawn(body, "pool")
                sim.yield_point("executor.submit")
            return fut

        def shutdown(self, wait=True, **kw):
            pass

    shim = types.ModuleType("sim_threading")
    shim.Lock, shim.RLock, shim.Condition, shim.Event = SLock, SRLock, SCondition, SEvent
    shim.Thread, shim.Timer = SThread, STimer
    shim.Future, shim.ThreadPoolExecutor = SFuture, SExecutor
    shim.current_thread = threading.current_thread
    shim.local = threading.local
    shim.get_ident = threading.get_ident
    shim.main_thread = threading.main_thread
    return shim


# ------------------------------------------------------------------ patching

_PATCH_PLAN = None
_PATCH_NMODS = 0
_REAL_LOCK_TYPE = type(threading.Lock())
_REAL_RLOCK_TYPE = type(threading.RLock())


def _import_all():
    import importlib
    import pkgutil

    import reactivex
    for m in pkgutil.walk_packages(reactivex.__path__, "reactivex."):
        if any(x in m.name for x in (".mainloop", "eventlet", "gevent", "tornado", "twisted", "ioloop")):
            continue
        try:
            importlib.import_module(m.name)
        except Exception:  # optional dependencies
            pass


def patch(sim, shim):
    """Rebind, by object identity, every reactivex module global that is the threading module or one of
    its primitives (and concurrent.futures' executor/future) to the simulator's equivalents; swap
    class-level real locks; rebind the wall clock.  Returns the undo list."""
    import concurrent.futures as cf

    import reactivex  # noqa: F401
    import reactivex.scheduler.scheduler as sch

    table = {
        id(threading.Lock): "Lock", id(threading.RLock): "RLock", id(threading.Condition): "Condition",
        id(threading.Event): "Event", id(threading.Thread): "Thread", id(threading.Timer): "Timer",
        id(cf.ThreadPoolExecutor): "ThreadPoolExecutor", id(cf.Future): "Future",
    }
    global _PATCH_PLAN, _PATCH_NMODS
    if _PATCH_PLAN is None:
        _import_all()  # lazily imported modules (reactivex.run, operators imported inside functions) must be patched too
    nmods = len(sys.modules)
    if _PATCH_PLAN is None or nmods != _PATCH_NMODS:
        plan = []  # (object, attribute, what) computed once per set of loaded modules
        for name, mod in list(sys.modules.items()):
            if mod is None or not (name == "reactivex" or name.startswith("reactivex.")):
                continue
            for k, v in list(vars(mod).items()):
                if v is threading:
                    plan.append((mod, k, "module"))
                elif id(v) in table:
                    plan.append((mod, k, table[id(v)]))
                elif isinstance(v, type) and getattr(v, "__module__", "").startswith("reactivex"):
                    for ck, cv in list(vars(v).items()):
                        if isinstance(cv, _REAL_LOCK_TYPE):
                            plan.append((v, ck, "lock-instance"))
                        elif isinstance(cv, _REAL_RLOCK_TYPE):
                            plan.append((v, ck, "rlock-instance"))
                        elif ck == "_global" and hasattr(cv, "clear"):
                            plan.append((v, ck, "singleton-cache"))
                        elif getattr(type(cv), "__module__", "").startswith("reactivex") and hasattr(cv, "__dict__"):
                            plan.append((cv, None, "shared-instance"))  # a class-level object of the library (shared by every user of the class)
                elif getattr(type(v), "__module__", "").startswith("reactivex") and hasattr(v, "__dict__") and not isinstance(v, type) and not callable(v):
                    plan.append((v, None, "shared-instance"))  # a module-level object of the library
        _PATCH_PLAN, _PATCH_NMODS = plan, nmods
    saved = []
    for obj, k, what in _PATCH_PLAN:
        if what == "shared-instance":
            # real primitives inside an object built at import time: a simulated thread parked while it holds one would block the
            # next for real (the baton would be lost).  Replaced for the run, a Condition on top of its replaced lock.
            swapped = {}
            inner = [(ik, iv) for ik, iv in list(vars(obj).items())]
            for ik, iv in inner:
                if isinstance(iv, _REAL_LOCK_TYPE) or isinstance(iv, _REAL_RLOCK_TYPE):
                    swapped[id(iv)] = shim.Lock() if isinstance(iv, _REAL_LOCK_TYPE) else shim.RLock()
                    saved.append((obj, ik, iv))
                    setattr(obj, ik, swapped[id(iv)])
            for ik, iv in inner:
                if isinstance(iv, threading.Condition):
                    saved.append((obj, ik, iv))
                    setattr(obj, ik, shim.Condition(swapped.get(id(iv._lock))))
                elif isinstance(iv, threading.Event):
                    saved.append((obj, ik, iv))
                    setattr(obj, ik, shim.Event())
            continue
        if what == "singleton-cache":
            # process-global singleton caches (ImmediateScheduler, CurrentThreadScheduler, TimeoutScheduler): start every run
            # from the same state, otherwise the first run of a process executes "create the singleton" lines the others do not
            getattr(obj, k).clear()
            continue
        saved.append((obj, k, getattr(obj, k)))
        if what == "module":
            setattr(obj, k, shim)
        elif what == "lock-instance":
            setattr(obj, k, shim.Lock())
        elif what == "rlock-instance":
            setattr(obj, k, shim.RLock())
        else:
            setattr(obj, k, getattr(shim, what))
    saved.append((sch, "default_now", sch.default_now))
    sch.default_now = sim.utcnow
    return saved


def unpatch(saved):
    for obj, k, v in reversed(saved):
        setattr(obj, k, v)


# ------------------------------------------------------------------ schedule search helpers

def _site(site):
    return tuple(site) if isinstance(site, list) else site


def choose_cps(rng, sites, marker, total_steps, k, site_first_p=0.7, focus=(), focus_p=0.75):
    """k change points (thread, site, n-th occurrence in that thread): 70% by picking a distinct (thread, site)
    uniformly and then one of its occurrences (so a two-line race window is not diluted by long phases), 30%
    uniformly over the recorded steps.  Addressing a change point by thread-local occurrence keeps it meaningful
    after an earlier change point has reordered the run."""
    by_key = {}
    pool = []
    for step, tname, site, c in sites:
        if step > marker:
            by_key.setdefault((tname, site), []).append(c)
            pool.append((tname, site, c))
    keys = sorted(by_key, key=repr)
    # sites in the files that hold the mechanism under test get most of the change points
    fkeys = [k_ for k_ in keys if isinstance(k_[1], tuple) and any(f in k_[1][0] for f in focus)] if focus else []
    cps = []
    for _ in range(k):
        if not pool:
            break
        if rng.random() < site_first_p:
            ks = fkeys if (fkeys and rng.random() < focus_p) else keys
            key = ks[rng.randrange(len(ks))]
            occ = by_key[key]
            cps.append([key[0], list(key[1]) if isinstance(key[1], tuple) else key[1], occ[rng.randrange(len(occ))]])
        else:
            t, s_, c = pool[rng.randrange(len(pool))]
            cps.append([t, list(s_) if isinstance(s_, tuple) else s_, c])
    return cps


import logging
logging.getLogger("Rx").setLevel(logging.ERROR)


_WARMED = set()


class _WarmAbort(Exception):
    pass


def _code_objects_of(mod, fname):
    import types
    found, stack = {}, []

    def add_fn(f):
        f = getattr(f, "__func__", f)
        co = getattr(f, "__code__", None)
        if co is not None and co.co_filename == fname:
            stack.append(co)

    for obj in list(vars(mod).values()):
        if isinstance(obj, type) and getattr(obj, "__module__", None) == mod.__name__:
            for v in list(vars(obj).values()):
                if isinstance(v, property):
                    for g in (v.fget, v.fset, v.fdel):
                        if g is not None:
                            add_fn(g)
                else:
                    add_fn(v)
        else:
            add_fn(obj)
    while stack:
        co = stack.pop()
        if id(co) in found:
            continue
        found[id(co)] = co
        for c in co.co_consts:
            if isinstance(c, types.CodeType):
                stack.append(c)
    return list(found.values())


def warm_opcode_tracing(fragments):
    """CPython 3.12 keeps 'instruction' instrumentation per code object, switched on the first time a frame of it sets
    f_trace_opcodes - and that first frame only sees the events from its next instrumentation check on.  The first
    bytecode-level run of a process would therefore see fewer pre-emption points than every later one (and than a replay).
    Before the first such run every code object of the files concerned is entered once under a trace function that
    sets f_trace_opcodes and aborts the call before its first instruction."""
    import types
    for name, mod in list(sys.modules.items()):
        fname = getattr(mod, "__file__", None) or ""
        if not name.startswith("reactivex") or fname in _WARMED or not any(fr in fname for fr in fragments):
            continue
        _WARMED.add(fname)
        for co in _code_objects_of(mod, fname):
            def tracer(frame, event, arg, co=co):
                if frame.f_code is co:
                    frame.f_trace_opcodes = True
                    raise _WarmAbort()
                return None
            try:
                fn = types.FunctionType(co, {"__builtins__": __builtins__}, "warm", None, tuple(types.CellType() for _ in co.co_freevars))
                args = [None] * co.co_argcount
                kw = {n: None for n in co.co_varnames[co.co_argcount:co.co_argcount + co.co_kwonlyargcount]}
                sys.settrace(tracer)
                r = fn(*args, **kw)
                if co.co_flags & 0x20:
                    next(r)
                elif co.co_flags & (0x80 | 0x200):
                    r.send(None) if hasattr(r, "send") else r.asend(None).send(None)
            except BaseException:  # noqa: BLE001 - _WarmAbort, or whatever a code object we could not enter raises
                pass
            finally:
                sys.settrace(None)


def run_sim(body, seed, cps=(), record=False, spurious_p=0.0, drift_p=0.0, trace_extra=(), wall=150.0, max_steps=400000, setup=None, opcode_files=(), stall_p=0.0):
    """Run `body(sim, shim)` as the main workload thread under a fresh simulator with reactivex patched."""
    sim = Sim(seed, cps or (), record, spurious_p, drift_p, max_steps, trace_extra)
    sim.opcode_files = tuple(opcode_files or ())
    if sim.opcode_files:
        import reactivex  # noqa: F401
        if _PATCH_PLAN is None:
            _import_all()
        warm_opcode_tracing(sim.opcode_files)
    sim.stall_p = stall_p
    shim = make_shim(sim)
    saved = patch(sim, shim)
    try:
        if setup:
            setup(sim, shim)
        sim.run(lambda: body(sim, shim), wall)
    finally:
        unpatch(saved)
    return sim


def interleaving_digest(sim):
    """distinct-interleaving measure: the sequence of (from, to, site) at context switches after the marker"""
    m = sim.marker or 0
    return tuple((a, b, s) for st, a, b, s in sim.switch_log if st >= m)


LAST_RECORD = {}


def sweep(execute, sc, cap=120, per_key=3):
    """Single-pre-emption sweep of one scenario: the undisturbed run is recorded, then the scenario is executed once per
    candidate change point (thread, site, n-th occurrence) in the focus files - all of them up to `cap`, in a seeded
    order - each as an ordinary run with that one forced pre-emption.  A race that needs exactly one badly placed
    switch is then found whenever the scenario can show it, instead of once in a few thousand samples.  The witness of a
    failure is an ordinary scenario with "cps": [that change point]."""
    from simlib.core import Outcome
    base = dict(sc)
    base["cps"] = []
    base["_record"] = True
    LAST_RECORD.clear()
    first = execute(base)
    agg = Outcome()
    agg.digests = [(first.digest, first.nontrivial)]
    agg.evals = max(1, first.evals)
    agg.steps, agg.sim_time = first.steps, first.sim_time
    agg.faults.update(first.faults)
    agg.probes.update(first.probes)
    agg.probes["single_preemption_sweeps"] += 1
    if first.viol:
        agg.viol, agg.witness = first.viol, {k: v for k, v in (first.witness or dict(sc, cps=[])).items() if k != "_record"}
    rec = dict(LAST_RECORD)
    focus = rec.get("focus") or ()
    by_key = {}
    for step, tname, site, c in rec.get("sites") or ():
        if step > (rec.get("marker") or 0) and isinstance(site, tuple) and (not focus or any(f in site[0] for f in focus)):
            by_key.setdefault((tname, site), []).append(c)
    cands = []
    for (tname, site), occ in sorted(by_key.items(), key=repr):
        for c in occ[:per_key]:
            cands.append([tname, list(site), c])
    random.Random(sc["sched"]["seed"] ^ 0x9E3779B9).shuffle(cands)
    cands = cands[:cap]
    for cp in cands:
        one = dict(sc)
        one["cps"] = [cp]
        o = execute(one)
        agg.evals += max(1, o.evals)
        agg.steps += o.steps
        agg.sim_time += o.sim_time
        agg.faults.update(o.faults)
        agg.probes.update(o.probes)
        agg.digests.append((o.digest, o.nontrivial))
        if o.viol and not agg.viol:
            agg.viol, agg.witness = o.viol, (o.witness or one)
    agg.info = dict(first.info or {}, swept_change_points=len(cands))
    return agg


def explore(sc, body_factory, out, **kw):
    """Dry run (records pre-emption sites) + the real run with k change points chosen by site-first
    sampling; a scenario that already carries "cps" (a replay) skips the dry run.
    Returns (sim, cps).  body_factory() must return a fresh body(sim, shim) each time."""
    sched = sc["sched"]
    cps = sc.get("cps")
    focus = kw.pop("focus", ())
    spurious = sched.get("spurious", 0.0)
    drift = sched.get("drift", 0.0)
    if sched.get("opcodes"):
        kw["opcode_files"] = focus  # bytecode-level pre-emption points in the files that hold the mechanism under test
    if cps is None:
        if sched.get("k", 0) > 0:
            dry = run_sim(body_factory(), sched["seed"], (), record=True, **kw)
            cps = choose_cps(random.Random(sched["seed"] ^ 0x5DEECE66D), dry.sites, dry.marker or 0, dry.steps, sched["k"], focus=focus)
            out.evals += 1
        else:
            cps = []
    sim = run_sim(body_factory(), sched["seed"], cps, record=bool(sc.get("_record")), spurious_p=spurious, drift_p=drift, stall_p=sched.get("stall", 0.0), **kw)
    if sc.get("_record"):
        LAST_RECORD.update(sites=sim.sites, marker=sim.marker, focus=focus)
    out.steps += sim.steps
    out.sim_time += max(0.0, sim.seconds())
    for k, v in sim.faults.items():
        if v:
            out.faults[k] += v
    return sim, cps


def gen_sched(rng, ks=(0, 1, 2, 2, 3, 3), spurious_p=0.0, drift_p=0.0, sweep_p=0.0, opcode_p=0.2, stall_p=0.0):
    d = {"seed": rng.getrandbits(32), "k": rng.choice(ks),
         "spurious": rng.choice([0.0, spurious_p]) if spurious_p else 0.0,
         "drift": rng.choice([0.0, 0.0, drift_p]) if drift_p else 0.0}
    if stall_p and rng.random() < 0.5:
        d["stall"] = stall_p  # a forced pre-emption is, with this probability, a stall: the thread stays off the CPU for 0.3-40 ms of simulated time
    if opcode_p and rng.random() < opcode_p:
        d["opcodes"] = True  # pre-emption points at every bytecode of the focus files (else: at every line)
    if sweep_p and rng.random() < sweep_p:
        d["sweep"] = True  # this scenario gets a single-pre-emption sweep (th.sweep) instead of k sampled change points
        d["spurious"] = d["drift"] = 0.0
    return d
