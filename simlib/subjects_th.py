"""Subjects under concurrent callers (TH engine part of C20-C23).

One controlled producer thread emits 1, 2, ..., m (then optionally completes or fails) while 1-2 controlled subscriber
threads subscribe at seeded moments and optionally unsubscribe later; 0-3 forced pre-emptions inside the subject's code.
The statements of C20-C23 say what a subscriber sees relative to "the call is made" / "the current value" / "the retained
values"; with concurrent callers that moment is somewhere between invoke and return of subscribe(), and the checks are
written so that every such moment is accepted:

* plain:    a contiguous run a, a+1, ..., then the terminal notification if one was sent and the subscriber stayed;
* behavior: the same, starting with the value that was current at some moment of its subscribe() (0 = the initial value);
* replay:   the same, starting no earlier than buffer_size values before such a moment;
* async:    nothing but [last value, completion] / [completion] / [error].

"Contiguous" is the whole point: a value published between the moment the subscriber read "the current value" and the
moment it was registered is lost (or delivered twice) only if those two are not one atomic step.
"""
from __future__ import annotations

from simlib import th, vt
from simlib.core import Outcome


class Work:
    def __init__(self, sc):
        self.sc = sc
        self.logs = {}  # subscriber index -> [(tick, kind, value, thread)]
        self.sub_iv = {}  # subscriber index -> [invoke tick, return tick]
        self.unsub_inv = {}
        self.sent = []  # (tick at invoke, tick at return, kind, value)
        self.errors = []

    def body(self, sim, shim):
        from reactivex.subject import AsyncSubject, BehaviorSubject, ReplaySubject, Subject

        sc = self.sc
        kind = sc["kind"]
        if kind == "plain":
            sj = Subject()
        elif kind == "behavior":
            sj = BehaviorSubject(0)
        elif kind == "replay":
            sj = ReplaySubject(sc.get("buffer_size"))
        else:
            sj = AsyncSubject()
        self.sj = sj
        sim.mark()

        def producer():
            for ev in sc["events"]:
                if ev[0] == "sleep":
                    sim.sleep(ev[1] / 1000.0)
                    continue
                inv = sim.tick()
                if ev[0] == "N":
                    sj.on_next(ev[1])
                elif ev[0] == "C":
                    sj.on_completed()
                else:
                    sj.on_error(vt.SourceError("x"))
                self.sent.append((inv, sim.tick(), ev[0], ev[1] if ev[0] == "N" else None))

        def subscriber(i, spec):
            def run():
                log = self.logs.setdefault(i, [])
                if spec["after_ms"]:
                    sim.sleep(spec["after_ms"] / 1000.0)
                for _ in range(spec["yields"]):
                    sim.yield_point("subscriber.wait")

                def rec(k, v=None):
                    log.append((sim.tick(), k, v, sim.current.name))
                    sim.yield_point("observer.body")

                inv = sim.tick()
                d = sj.subscribe(lambda v: rec("N", v), lambda e: rec("E"), lambda: rec("C"))
                self.sub_iv[i] = [inv, sim.tick()]
                if spec["unsub_after_ms"] is not None:
                    sim.sleep(spec["unsub_after_ms"] / 1000.0)
                    self.unsub_inv[i] = sim.tick()
                    d.dispose()
            return run

        sim.spawn(producer, "producer", "work")
        for i, spec in enumerate(sc["subscribers"]):
            sim.spawn(subscriber(i, spec), "sub%d" % i, "work")


def gen(rng, kind):
    m = rng.randrange(1, 6)
    ev = []
    for i in range(1, m + 1):
        ev.append(["N", i])
        if rng.random() < 0.3:
            ev.append(["sleep", rng.choice([1, 2, 5])])
    t = rng.choice(["C", "C", "E", None])
    if kind == "async" and t is None:
        t = "C"
    if t:
        ev.append([t])
    subs = [{"after_ms": rng.choice([0, 0, 1, 2, 3, 6]), "yields": rng.randrange(0, 6), "unsub_after_ms": rng.choice([None, None, 0, 1, 4])}
            for _ in range(rng.choice([1, 2, 2]))]
    sc = {"mode": "th", "kind": kind, "events": ev, "subscribers": subs, "sched": th.gen_sched(rng, ks=(1, 2, 2, 3, 3), sweep_p=0.05, opcode_p=0.5)}
    if kind == "replay":
        sc["buffer_size"] = rng.choice([None, 1, 2])
    return sc


def valid(sc):
    """(for the shrinker) the values are 1..m in order: the oracles read gaps and staleness off them"""
    vals = [e[1] for e in sc["events"] if e[0] == "N"]
    return vals == list(range(1, len(vals) + 1)) and all(e[0] in ("N", "C", "E", "sleep") for e in sc["events"])


FOCUS = {"plain": ("subject.py", "innersubscription.py"), "behavior": ("behaviorsubject.py", "subject.py", "innersubscription.py"),
         "replay": ("replaysubject.py", "scheduledobserver.py"), "async": ("asyncsubject.py", "subject.py", "innersubscription.py")}


def execute(sc):
    if sc["sched"].get("sweep") and "cps" not in sc:
        return th.sweep(execute, sc)
    out = Outcome()
    holder = {}

    def factory():
        w = Work(sc)
        holder["w"] = w
        return w.body

    sim, cps = th.explore(sc, factory, out, focus=FOCUS[sc["kind"]])
    w = holder["w"]
    kind = sc["kind"]
    dig = th.interleaving_digest(sim)
    out.digest = ("th", kind, repr(sc["events"]), repr(sc["subscribers"]), sc.get("buffer_size"), dig)
    out.nontrivial = sim.faults["preempt"] > 0 and any(len(v) >= 1 for v in w.logs.values())
    out.probes["th:" + kind] += 1
    desc = "concurrent %s%s events=%s subscribers=%s cps=%s" % (kind, ("(buffer_size=%s)" % sc.get("buffer_size")) if kind == "replay" else "", sc["events"], sc["subscribers"], cps)

    def bad(rule, msg):
        if not out.viol:
            out.bad(rule, "%s: %s" % (desc, msg))

    if sim.failure:
        bad(sim.failure[0], sim.failure[1])
    if sim.thread_errors:
        bad("thread-exception", repr(sim.thread_errors[0]))
    values = [e[1] for e in sc["events"] if e[0] == "N"]
    m = len(values)
    term = [e[0] for e in sc["events"] if e[0] in "CE"]
    term = term[0] if term else None
    sent = {v: (a, b) for a, b, k, v in w.sent if k == "N"}
    term_sent = [(a, b) for a, b, k, v in w.sent if k in "CE"]
    for i, log in sorted(w.logs.items()):
        ks = "".join(e[1] for e in log)
        vals = [e[2] for e in log if e[1] == "N"]
        who = "subscriber %d received %s" % (i, [(e[1], e[2]) for e in log])
        if any(k in "CE" for k in ks[:-1]):
            bad("grammar", who)
            continue
        iv = w.sub_iv.get(i)
        unsub = w.unsub_inv.get(i)
        if kind == "async":
            exp_ok = (ks in ("", "NC", "C", "E") or (ks == "N" and unsub is not None)) and (not vals or vals == [m]) and not (term == "E" and "N" in ks) and not (term == "C" and m and ks == "C")
            if not exp_ok:
                bad("async-log", who + ", the subject got %d values and then %s" % (m, term))
            if iv and not sim.failure and unsub is None and term and ks[-1:] != term:
                bad("lost-terminal", who + " although it never unsubscribed")
            continue
        # contiguous run
        if any(b != a + 1 for a, b in zip(vals, vals[1:])):
            bad("gap-or-duplicate", who + ": the values are not a contiguous run")
            continue
        if vals and iv:
            first = vals[0]
            if kind == "plain":
                # the first value must have been sent (invoked) no earlier than ... it cannot have returned before subscribe() was invoked
                if first in sent and sent[first][1] < iv[0]:
                    bad("stale-value", who + ": value %d had been delivered before subscribe() was invoked" % first)
            elif kind == "behavior":
                # the value current at some moment of subscribe(): not one whose successor had been published before subscribe() was invoked
                nxt = first + 1
                if nxt in sent and sent[nxt][1] < iv[0]:
                    bad("stale-value", who + ": its first value %d was no longer current when subscribe() was invoked (value %d had been published)" % (first, nxt))
            elif kind == "replay":
                n = sc.get("buffer_size")
                if n is not None:
                    # at most n values older than the subscription: value first+n must not have been published before subscribe() was invoked
                    old = first + n
                    if old in sent and sent[old][1] < iv[0]:
                        bad("replayed-too-much", who + ": %d values were already retained behind value %d when subscribe() was invoked (buffer_size %d)" % (n, first, n))
        if iv and not sim.failure and unsub is None and not sim.thread_errors:
            # stayed subscribed to the end: must have seen everything up to the last value, and the terminal
            if m and kind in ("plain", "behavior", "replay"):
                last_sent = sent.get(m)
                if last_sent and last_sent[0] > iv[1] and (not vals or vals[-1] != m):
                    bad("lost-value", who + ": value %d was sent after subscribe() returned and never arrived" % m)
            if term and term_sent and ks[-1:] != term:
                bad("lost-terminal", who + " although it never unsubscribed and the subject sent %s" % term)
    if out.viol:
        wsc = dict(sc)
        wsc["cps"] = cps
        out.witness = wsc
    out.info = {"kind": kind, "events": sc["events"], "subscribers": sc["subscribers"], "cps": cps, "logs": {i: "".join(e[1] for e in log) for i, log in w.logs.items()}}
    return out
