"""Event-driven reference interpreter for multi-source operators (C10-C13 and the time operators).

A tiny discrete-event engine ("same interface, trivial inside"): sources are the scenario's timelines,
operators are small state machines written from the property statements.  Two events of different
sources at one instant are a heterogeneous tie whose order the properties do not fix: the engine
flags it (Tie) instead of guessing.
"""
from __future__ import annotations

import heapq

from simlib import vt
from simlib.models import Tie


class Sub:
    """One subscription of the model to a source timeline."""

    __slots__ = ("eng", "sid", "t_sub", "t_end", "live", "handler")

    def __init__(self, eng, sid, handler):
        self.eng, self.sid, self.handler = eng, sid, handler
        self.t_sub = eng.now
        self.t_end = None
        self.live = True

    def cancel(self):
        if self.live:
            self.live = False
            self.t_end = self.eng.now


class Engine:
    def __init__(self, specs):
        self.specs = {s["id"]: s for s in specs}
        self.q = []
        self.seq = 0
        self.now = 0.0
        self.subs = []  # every Sub made, in order
        self.out = []  # (t, kind, value)
        self.done = False
        self.last = None  # (t, source instance) of the last delivered source event
        self.timers = 0
        self.hot_armed = set()
        self.feedback = None  # {"sid": hot source, "at": {str(index of an output element): value}}: the consumer pushes value into the source from inside its handler
        self.n_out = 0

    # -- output
    def emit(self, k, v=None):
        if not self.done:
            self.out.append((self.now, k, v))
            if k in "CE":
                self.done = True
                for s in self.subs:
                    s.cancel()
            elif self.feedback is not None:
                i = self.n_out
                self.n_out += 1
                fv = self.feedback["at"].get(str(i))
                if fv is not None:
                    # re-entrant emission: the element arrives now, nested inside the delivery of this output
                    self.inject(self.feedback["sid"], "N", vt.dec(fv))

    def inject(self, sid, k, v):
        for s in list(self.subs):
            if s.live and s.sid == sid:
                self._deliver(s, k, v)

    # -- sources
    def subscribe(self, sid, handler):
        """handler(kind, value).  Returns the Sub."""
        spec = self.specs[sid]
        sub = Sub(self, sid, handler)
        self.subs.append(sub)
        kind = spec["kind"]
        evs = []
        for e in spec["events"]:
            t, k = e[0], e[1]
            v = vt.dec(e[2]) if len(e) > 2 else None
            if k == "E" and not isinstance(v, Exception):
                v = vt.SourceError(v)
            evs.append((t, k, v))
            if k in "CE":
                break
        if kind == "sync":
            for t, k, v in evs:
                if sub.live:
                    self._deliver(sub, k, v)
        elif kind == "cold":
            for t, k, v in evs:
                self._push(self.now + t, ("src", sub, k, v))
        elif kind == "syncthen":
            # like a BehaviorSubject: the first event inside subscribe(), the rest like a cold source
            for t, k, v in evs[1:]:
                self._push(self.now + t, ("src", sub, k, v))
            for t, k, v in evs[:1]:
                if sub.live:
                    self._deliver(sub, k, v)
        else:
            # one timeline per hot source, broadcast to the subscribers present when an event fires
            if sid not in self.hot_armed:
                self.hot_armed.add(sid)
                for t, k, v in evs:
                    if t > self.now:
                        self._push(t, ("hot", sid, k, v))
            if any(t == self.now for t, k, v in evs):
                raise Tie()  # hot event at the very instant of a subscription
        return sub

    def _deliver(self, sub, k, v):
        if k in "CE":
            sub.live = False
            sub.t_end = self.now
        sub.handler(k, v)

    def after(self, delay, fn):
        """operator-internal timer"""
        self.timers += 1
        return self._push(self.now + delay, ("timer", fn))

    def _push(self, t, item):
        self.seq += 1
        cell = [t, self.seq, item, True]
        heapq.heappush(self.q, cell)
        return cell

    @staticmethod
    def cancel_timer(cell):
        if cell is not None:
            cell[3] = False

    def _who(self, cell):
        item = cell[2]
        return item[1] if item[0] in ("src", "hot") else "timer"

    def _relevant(self, cell):
        item = cell[2]
        if item[0] == "src":
            return item[1].live
        if item[0] == "hot":
            return any(s_.live and s_.sid == item[1] for s_ in self.subs)
        return True

    def run(self, horizon, mask=None):
        """Process the queue instant by instant.  An instant whose batch mixes different sources is a tie
        (raised).  A batch mixing one source with operator timers is raised as a tie when mask is None;
        otherwise bit k of mask resolves the k-th such instant (1 = timers first, 0 = source first)."""
        self.nties = 0
        while self.q and self.q[0][0] <= horizon:
            t = self.q[0][0]
            batch = []
            while self.q and self.q[0][0] == t:
                c = heapq.heappop(self.q)
                if c[3] and self._relevant(c):
                    batch.append(c)
            if not batch:
                continue
            self.now = float(t)
            whos = []
            for c in batch:
                w_ = self._who(c)
                if not any(w_ is x or w_ == x for x in whos):
                    whos.append(w_)
            srcs = [x for x in whos if not (isinstance(x, str) and x == "timer")]
            if len(srcs) > 1 and not self.done:
                raise Tie()
            if len(whos) > 1 and not self.done:
                if mask is None:
                    raise Tie()
                bit = (mask >> self.nties) & 1
                self.nties += 1
                batch.sort(key=lambda c: ((c[2][0] == "timer") != bool(bit), c[1]))
            for c in batch:
                item = c[2]
                if not c[3]:
                    continue
                if item[0] == "src":
                    if item[1].live:
                        self._deliver(item[1], item[2], item[3])
                elif item[0] == "hot":
                    if any(s_.sid == item[1] and s_.t_sub == t for s_ in self.subs):
                        raise Tie()  # subscribed to a hot source at the very instant one of its events fires
                    for s_ in [s_ for s_ in self.subs if s_.live and s_.sid == item[1]]:
                        if s_.live:
                            self._deliver(s_, item[2], item[3])
                else:
                    item[1]()
        return self

    def intervals(self):
        out = {}
        for s in self.subs:
            out.setdefault(s.sid, []).append((float(s.t_sub), None if s.t_end is None else float(s.t_end)))
        return out


# ------------------------------------------------------------------ C10 sequential composition

def seq_model(eng, srcs, mode, on_done=None):
    """Subscribe srcs (an iterator of source ids, possibly lazy) strictly one after another.
    mode: 'concat' (continue on C, stop on E), 'catch' (continue on E, stop on C), 'resume' (continue on both)."""
    it = iter(srcs)
    state = {"last_err": None, "running": False, "again": False}

    def start_next():
        # iterative: a source that terminates inside subscribe() asks for the next one from within step(); hundreds of such runs
        # (repeat(300) of a synchronous source) must not nest in the model either
        if state["running"]:
            state["again"] = True
            return
        state["running"] = True
        try:
            while True:
                state["again"] = False
                step()
                if not state["again"]:
                    break
        finally:
            state["running"] = False

    def step():
        try:
            sid = next(it)
        except StopIteration:
            if mode == "catch" and state["last_err"] is not None:
                eng.emit("E", state["last_err"])
            else:
                eng.emit("C")
            return

        def h(k, v):
            if k == "N":
                eng.emit("N", v)
            elif k == "C":
                if mode == "catch":
                    eng.emit("C")
                else:
                    start_next()
            else:
                if mode == "concat":
                    eng.emit("E", v)
                else:
                    state["last_err"] = v
                    start_next()

        eng.subscribe(sid, h)

    start_next()


# ------------------------------------------------------------------ C11 merging

def merge_model(eng, outer_events_handler=None, static=None, max_concurrent=None, outer=None, pick=None):
    """static: list of inner ids subscribed in order (merge of observables);
    outer: id of the outer timeline whose elements select inners through pick(value, index)."""
    st = {"active": 0, "outer_done": False, "queue": [], "i": 0}

    def inner_done():
        st["active"] -= 1
        if st["queue"]:
            sub_inner(st["queue"].pop(0))
        elif st["outer_done"] and st["active"] == 0:
            eng.emit("C")

    def sub_inner(sid):
        st["active"] += 1

        def h(k, v):
            if k == "N":
                eng.emit("N", v)
            elif k == "E":
                eng.emit("E", v)
            else:
                inner_done()

        eng.subscribe(sid, h)

    def arrive(sid):
        if max_concurrent is not None and st["active"] >= max_concurrent:
            st["queue"].append(sid)
        else:
            sub_inner(sid)

    if static is not None:
        for sid in static:
            if eng.done:
                break
            arrive(sid)
        st["outer_done"] = True
        if st["active"] == 0 and not st["queue"]:
            eng.emit("C")
        return

    def oh(k, v):
        if k == "N":
            sid = pick(v, st["i"])
            st["i"] += 1
            arrive(sid)
        elif k == "E":
            eng.emit("E", v)
        else:
            st["outer_done"] = True
            if st["active"] == 0 and not st["queue"]:
                eng.emit("C")

    eng.subscribe(outer, oh)


# ------------------------------------------------------------------ C12 switching

def switch_model(eng, outer, pick):
    st = {"gen": 0, "cur": None, "outer_done": False, "inner_live": False, "i": 0}

    def oh(k, v):
        if k == "N":
            sid = pick(v, st["i"])
            st["i"] += 1
            if st["cur"] is not None:
                st["cur"].cancel()  # the previous inner is unsubscribed as soon as a new inner arrives
            st["gen"] += 1
            g = st["gen"]
            st["inner_live"] = True

            def ih(k2, v2):
                if g != st["gen"]:
                    return
                if k2 == "N":
                    eng.emit("N", v2)
                elif k2 == "E":
                    eng.emit("E", v2)
                else:
                    st["inner_live"] = False
                    if st["outer_done"]:
                        eng.emit("C")

            sub = eng.subscribe(sid, ih)
            if g != st["gen"]:
                sub.cancel()  # superseded from inside its own subscribe() (a consumer fed the next inner back): let go on return
            else:
                st["cur"] = sub
        elif k == "E":
            eng.emit("E", v)
        else:
            st["outer_done"] = True
            if not st["inner_live"]:
                eng.emit("C")

    eng.subscribe(outer, oh)


# ------------------------------------------------------------------ C13 multi-source combinators

def zip_model(eng, sids):
    n = len(sids)
    qs = [[] for _ in sids]
    done = [False] * n

    def mk(i):
        def h(k, v):
            if k == "N":
                qs[i].append(v)
                if all(qs):
                    eng.emit("N", tuple(q.pop(0) for q in qs))
                    if any(done[j] and not qs[j] for j in range(n)):
                        eng.emit("C")
            elif k == "E":
                eng.emit("E", v)
            else:
                done[i] = True
                if not qs[i]:
                    eng.emit("C")
        return h

    for i, sid in enumerate(sids):
        if eng.done:
            break
        eng.subscribe(sid, mk(i))


def combine_latest_model(eng, sids):
    """completion is enveloped by the caller: the model completes when every source completed
    (latest moment); 'early' records the earliest moment no further tuple is possible."""
    n = len(sids)
    has = [False] * n
    vals = [None] * n
    done = [False] * n
    info = {"early": None}

    def mk(i):
        def h(k, v):
            if k == "N":
                has[i] = True
                vals[i] = v
                if all(has):
                    eng.emit("N", tuple(vals))
            elif k == "E":
                eng.emit("E", v)
            else:
                done[i] = True
                if info["early"] is None and (all(done) or (not has[i])):
                    info["early"] = eng.now  # a source completed empty: no tuple can ever be produced
                if all(done):
                    eng.emit("C")
        return h

    for i, sid in enumerate(sids):
        if eng.done:
            break
        eng.subscribe(sid, mk(i))
    return info


def with_latest_from_model(eng, sids):
    n = len(sids) - 1
    has = [False] * n
    vals = [None] * n

    def primary(k, v):
        if k == "N":
            if all(has):
                eng.emit("N", (v,) + tuple(vals))
        elif k == "E":
            eng.emit("E", v)
        else:
            eng.emit("C")

    def mk(i):
        def h(k, v):
            if k == "N":
                has[i] = True
                vals[i] = v
            elif k == "E":
                eng.emit("E", v)
        return h

    return primary, [mk(i) for i in range(n)]


def fork_join_model(eng, sids):
    n = len(sids)
    has = [False] * n
    vals = [None] * n
    done = [False] * n

    def mk(i):
        def h(k, v):
            if k == "N":
                has[i] = True
                vals[i] = v
            elif k == "E":
                eng.emit("E", v)
            else:
                done[i] = True
                if not has[i]:
                    eng.emit("C")  # one source completed empty: complete at once
                elif all(done):
                    eng.emit("N", tuple(vals))
                    eng.emit("C")
        return h

    for i, sid in enumerate(sids):
        if eng.done:
            break
        eng.subscribe(sid, mk(i))


def amb_model(eng, sids):
    st = {"winner": None}
    subs = []
    # simultaneous firsts: either may win (tie)
    firsts = []
    for sid in sids:
        spec = eng.specs[sid]
        ev = spec["events"]
        if not ev:
            continue
        if spec["kind"] == "sync":
            firsts.append(eng.now)
        elif spec["kind"] == "cold":
            firsts.append(eng.now + min(e[0] for e in ev))
        else:
            later = [e[0] for e in ev if e[0] >= eng.now]
            if later:
                firsts.append(min(later))
    if firsts and firsts.count(min(firsts)) > 1:
        raise Tie()

    def mk(i):
        def h(k, v):
            if st["winner"] is None:
                st["winner"] = i
                for j, s in enumerate(subs):
                    if j != i and s is not None:
                        s.cancel()
            if st["winner"] == i:
                eng.emit(k, v)
        return h

    for i, sid in enumerate(sids):
        if st["winner"] is not None and st["winner"] != i:
            # a synchronous earlier source already won: later ones are subscribed and dropped at once (or not at all)
            subs.append(None)
            continue
        subs.append(None)
        subs[i] = eng.subscribe(sid, mk(i))
        if eng.done:
            break
