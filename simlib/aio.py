"""AIO engine: deterministic asyncio event loop on the simulator clock.

SimLoop subclasses asyncio.BaseEventLoop: time() is the simulated clock, the selector
wait of _run_once() is replaced by a wait on a simulated condition (TH engine) or by a
clock jump (single-threaded use); call_soon / call_later / handles / futures are CPython's.
"""
from __future__ import annotations

import asyncio
import heapq


def make_loop(sim, shim=None):
    """sim: th.Sim (clock + yield points).  shim: simulated threading module; None = single-threaded use
    (the wait jumps the clock and an indefinite wait stops the loop)."""

    class SimLoop(asyncio.BaseEventLoop):
        def __init__(self):
            super().__init__()
            self._clock_resolution = 1e-9
            self._wake = shim.Condition(shim.Lock()) if shim is not None else None
            self._woken = False
            self.idle_stop = shim is None
            self.callback_errors = []  # exceptions that escaped a callback (asyncio would only log them)
            if shim is not None:
                self.set_exception_handler(lambda loop, ctx: self.callback_errors.append(ctx.get("exception") or ctx.get("message")))

        def time(self):
            return sim.now / 1e6

        def _write_to_self(self):
            if self._wake is not None:
                with self._wake:
                    self._woken = True
                    self._wake.notify()

        def _process_events(self, event_list):
            pass

        def _wait(self, timeout):
            if self._wake is None:
                if timeout is None:
                    self._stopping = True  # nothing can ever wake a single-threaded loop
                elif timeout > 0:
                    sim.now += int(round(timeout * 1e6))
                return
            with self._wake:
                if not self._woken and timeout != 0:
                    self._wake.wait(timeout)
                self._woken = False

        def _run_once(self):
            while self._scheduled and self._scheduled[0]._cancelled:
                self._timer_cancelled_count -= 1
                h = heapq.heappop(self._scheduled)
                h._scheduled = False
            timeout = None
            if self._ready or self._stopping:
                timeout = 0
            elif self._scheduled:
                timeout = max(0, self._scheduled[0]._when - self.time())
            self._wait(timeout)
            end = self.time() + self._clock_resolution
            while self._scheduled:
                h = self._scheduled[0]
                if h._when >= end:
                    break
                h = heapq.heappop(self._scheduled)
                h._scheduled = False
                self._ready.append(h)
            n = len(self._ready)
            for _ in range(n):
                h = self._ready.popleft()
                if h._cancelled:
                    continue
                sim.yield_point("loop.before_run")  # the window between the cancelled-check and the call
                h._run()

    return SimLoop()
