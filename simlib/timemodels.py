"""Event-driven reference models of the time operators (C15, C16, C17) and the harness that applies
the tie policy: a scenario whose model run meets a same-instant tie between a source event and an
operator timer is accepted if the real output equals the model output under some resolution of the ties."""
from __future__ import annotations

from simlib import evmodel, models, multi, vt
from simlib.models import Tie


def compare(sc, build, model, out, desc, norm_got=None, max_ties=5, got_fn=None, want_fn=None, follow=False):
    """Real run (the same observable object subscribed once or twice, see multi.sub_times) against the reference
    interpreter run once per subscription, with the tie policy.  Returns (w, first recorder, wants of the first)."""
    w, recs = multi.run_real_multi(sc, build, follow=follow)
    want_fn = want_fn or (lambda eng: models.norm(eng.out))
    out.sim_time = sc["horizon"]
    multi._count_feedback(w, out)
    if w.escaped:
        out.bad("escaped", "%s: %r" % (desc, w.escaped[0][2:]))
    first_wants = None
    for i, (t0, rec) in enumerate(zip(multi.sub_times(sc), recs)):
        tag = desc if i == 0 else "%s [second subscription of the same observable at t=%s]" % (desc, t0)
        got_raw = rec.events_kv()
        got = got_fn(rec) if got_fn else models.norm(norm_got(got_raw) if norm_got else got_raw)
        g = vt.grammar_violation(rec)
        if g:
            out.bad("grammar", "%s: %s" % (tag, g))
        if i == 0:
            out.nontrivial = len(got) >= 2
        else:
            out.probes["second_subscription_checked"] += 1

        def run(mask, t0=t0):
            eng = evmodel.Engine(sc["sources"])
            eng.now = float(t0)
            eng.feedback = sc.get("feedback")
            model(eng, sc)
            eng.run(sc["horizon"], mask)
            return eng

        wants = None
        try:
            wants = [want_fn(run(None))]
        except Tie:
            out.probes["tie_scenarios"] += 1
            try:
                k = run(0).nties
                if k <= max_ties:
                    wants = []
                    for mask in range(1 << k):
                        o = want_fn(run(mask))
                        if o not in wants:
                            wants.append(o)
            except Tie:
                wants = None
        if wants is None:
            out.probes["tie_skipped"] += 1
        elif got not in wants:
            out.bad("model-mismatch", "%s: got %s, expected %s%s" % (tag, got[:12], wants[0][:12], (" (or %d other tie resolutions)" % (len(wants) - 1)) if len(wants) > 1 else ""))
        if i == 0:
            first_wants = wants
    return w, recs[0], first_wants


def single(eng, sid, on_next, on_error=None, on_completed=None):
    def h(k, v):
        if k == "N":
            on_next(v)
        elif k == "E":
            (on_error or (lambda e: eng.emit("E", e)))(v)
        else:
            (on_completed or (lambda: eng.emit("C")))()
    return eng.subscribe(sid, h)


# ------------------------------------------------------------------ C15

def m_delay(eng, sid, d):
    def on_next(v):
        eng.after(d, lambda: eng.emit("N", v))

    def on_completed():
        eng.after(d, lambda: eng.emit("C"))

    single(eng, sid, on_next, None, on_completed)  # an error is delivered immediately, pending elements are dropped


def m_delay_subscription(eng, sid, d):
    eng.after(d, lambda: single(eng, sid, lambda v: eng.emit("N", v)))


def m_delay_with_mapper(eng, sid, pick, sub_delay=None):
    st = {"pending": 0, "done": False}

    def start():
        def on_next(v):
            st["pending"] += 1
            fired = {"f": False}
            holder = {}

            def fire(*_):
                if not fired["f"]:
                    fired["f"] = True
                    eng.emit("N", v)
                    st["pending"] -= 1
                    if st["done"] and st["pending"] == 0:
                        eng.emit("C")
                    if holder.get("sub") is not None:
                        holder["sub"].cancel()

            def dh(k, x):
                if k == "E":
                    eng.emit("E", x)
                else:
                    fire()

            holder["sub"] = eng.subscribe(pick(v), dh)
            if fired["f"]:
                holder["sub"].cancel()

        def on_completed():
            st["done"] = True
            if st["pending"] == 0:
                eng.emit("C")

        single(eng, sid, on_next, None, on_completed)

    if sub_delay is None:
        start()
    else:
        started = {"s": False}
        holder2 = {}

        def sh(k, x):
            if k == "E":
                eng.emit("E", x)
            elif not started["s"]:
                started["s"] = True
                if holder2.get("sub") is not None:
                    holder2["sub"].cancel()
                start()

        holder2["sub"] = eng.subscribe(sub_delay, sh)
        if started["s"]:
            holder2["sub"].cancel()


def m_timestamp(eng, sid):
    single(eng, sid, lambda v: eng.emit("N", ("ts", v, eng.now)))


def m_time_interval(eng, sid):
    st = {"last": eng.now}

    def on_next(v):
        iv = eng.now - st["last"]
        st["last"] = eng.now  # before the element leaves: one that arrives during its delivery is measured from now
        eng.emit("N", ("ti", v, iv))

    single(eng, sid, on_next)


# ------------------------------------------------------------------ C16

def m_debounce(eng, sid, d):
    st = {"id": 0, "has": False, "v": None}

    def on_next(v):
        st["id"] += 1
        my = st["id"]
        st["has"], st["v"] = True, v

        def fire():
            if st["has"] and st["id"] == my:
                st["has"] = False
                eng.emit("N", v)

        eng.after(d, fire)

    def on_completed():
        if st["has"]:
            st["has"] = False
            eng.emit("N", st["v"])
        eng.emit("C")

    def on_error(e):
        st["has"] = False
        eng.emit("E", e)

    single(eng, sid, on_next, on_error, on_completed)


def m_throttle_first(eng, sid, w):
    st = {"last": None}

    def on_next(v):
        if st["last"] is None or eng.now - st["last"] >= w:
            st["last"] = eng.now
            eng.emit("N", v)

    single(eng, sid, on_next)


def m_throttle_with_mapper(eng, sid, pick):
    st = {"id": 0, "has": False, "v": None, "cur": None}

    def drop(holder):
        # (like the operator's serial disposable: the holder is registered before its throttle is subscribed, so that an element
        # arriving from inside that subscribe() - a consumer feeding back - lets go of the right one)
        if holder is not None:
            holder["dead"] = True
            if holder["sub"] is not None:
                holder["sub"].cancel()

    def on_next(v):
        st["id"] += 1
        my = st["id"]
        st["has"], st["v"] = True, v
        drop(st["cur"])
        mine = st["cur"] = {"sub": None, "fired": False, "dead": False}

        def th(k, x):
            if mine["fired"]:
                return  # only the throttle observable's first notification counts
            mine["fired"] = True
            if k == "E":
                eng.emit("E", x)
                return
            if st["has"] and st["id"] == my:
                st["has"] = False
                eng.emit("N", v)
            if mine["sub"] is not None:
                mine["sub"].cancel()

        mine["sub"] = eng.subscribe(pick(v), th)
        if mine["fired"] or mine["dead"]:
            mine["sub"].cancel()  # it fired inside its own subscribe(), or was superseded from inside it

    def on_completed():
        drop(st["cur"])
        if st["has"]:
            st["has"] = False
            eng.emit("N", st["v"])
        eng.emit("C")

    def on_error(e):
        st["has"] = False
        eng.emit("E", e)

    single(eng, sid, on_next, on_error, on_completed)


def m_sample(eng, sid, period=None, sampler=None):
    st = {"has": False, "v": None, "end": False}

    def tick():
        if st["has"]:
            st["has"] = False
            eng.emit("N", st["v"])
        if st["end"]:
            eng.emit("C")

    def on_next(v):
        st["has"], st["v"] = True, v

    def on_completed():
        st["end"] = True

    single(eng, sid, on_next, None, on_completed)
    if eng.done:
        return
    if sampler is not None:
        def sh(k, x):
            if k == "E":
                eng.emit("E", x)
            else:
                tick()
        eng.subscribe(sampler, sh)
    else:
        def periodic():
            if not eng.done:
                tick()
                eng.after(period, periodic)
        eng.after(period, periodic)


# ------------------------------------------------------------------ C17

def m_take_with_time(eng, sid, d):
    single(eng, sid, lambda v: eng.emit("N", v))
    if not eng.done:
        eng.after(d, lambda: eng.emit("C"))


def m_skip_with_time(eng, sid, d):
    st = {"open": False}
    eng.after(d, lambda: st.__setitem__("open", True))
    single(eng, sid, lambda v: eng.emit("N", v) if st["open"] else None)


def m_take_last_with_time(eng, sid, d, boundary_keeps):
    q = []

    def on_completed():
        for t, v in q:
            age = eng.now - t
            if age < d or (age == d and boundary_keeps):
                eng.emit("N", v)
        eng.emit("C")

    single(eng, sid, lambda v: q.append((eng.now, v)), None, on_completed)


def m_skip_last_with_time(eng, sid, d):
    q = []

    def flush():
        while q and eng.now - q[0][0] >= d:
            eng.emit("N", q.pop(0)[1])

    def on_next(v):
        q.append((eng.now, v))
        flush()

    def on_completed():
        flush()
        eng.emit("C")

    single(eng, sid, on_next, None, on_completed)


def m_timeout(eng, sid, d, other=None, first=None):
    """first: due time of the first timer when different (absolute datetime form fires once)."""
    st = {"id": 0, "switched": False, "timer": None, "sub": None}

    def arm(delay):
        my = st["id"]

        def fire():
            if st["id"] == my and not st["switched"]:
                st["switched"] = True
                st["sub"].cancel()
                if other is None:
                    eng.emit("E", Exception("Timeout"))
                else:
                    single(eng, other, lambda v: eng.emit("N", v))

        st["timer"] = eng.after(delay, fire)

    def on_next(v):
        if not st["switched"]:
            st["id"] += 1
            eng.emit("N", v)
            arm(d)

    def on_error(e):
        if not st["switched"]:
            st["id"] += 1
            eng.emit("E", e)

    def on_completed():
        if not st["switched"]:
            st["id"] += 1
            eng.emit("C")

    arm(d if first is None else first)
    st["sub"] = single(eng, sid, on_next, on_error, on_completed)


def m_timeout_abs(eng, sid, deadline_delay, other=None):
    """absolute due time: one deadline"""
    st = {"switched": False, "sub": None, "terminated": False}

    def fire():
        if not st["switched"] and not st["terminated"]:
            st["switched"] = True
            if st["sub"] is not None:
                st["sub"].cancel()
            if other is None:
                eng.emit("E", Exception("Timeout"))
            else:
                single(eng, other, lambda v: eng.emit("N", v))

    eng.after(deadline_delay, fire)

    def fin(k):
        def f(*a):
            if not st["switched"]:
                st["terminated"] = True
                eng.emit(k, *a)
        return f

    st["sub"] = single(eng, sid, lambda v: (not st["switched"]) and eng.emit("N", v), fin("E"), fin("C"))


def m_timeout_with_mapper(eng, sid, first, pick, other=None):
    st = {"id": 0, "switched": False, "sub": None, "tsub": None}

    def set_timer(tid):
        my = st["id"]
        if st["tsub"] is not None:
            st["tsub"].cancel()
        holder = {}

        def th(k, x):
            if st["id"] != my or st["switched"]:
                return
            if k == "E":
                eng.emit("E", x)
                return
            st["switched"] = True
            if st["sub"] is not None:
                st["sub"].cancel()
            if holder.get("s") is not None:
                holder["s"].cancel()
            if other is None:
                eng.emit("E", Exception("Timeout"))
            else:
                single(eng, other, lambda v: eng.emit("N", v))

        holder["s"] = eng.subscribe(tid, th)
        st["tsub"] = holder["s"]

    def on_next(v):
        if not st["switched"]:
            st["id"] += 1
            eng.emit("N", v)
            if not eng.done:
                set_timer(pick(v))

    def fin(k):
        def f(*a):
            if not st["switched"]:
                st["id"] += 1
                eng.emit(k, *a)
        return f

    set_timer(first)
    if not eng.done and not st["switched"]:
        st["sub"] = single(eng, sid, on_next, fin("E"), fin("C"))
