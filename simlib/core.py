"""Runner shared by every property check.

One integer decides everything: VERIF_SEED -> per-run seed H(VERIF_SEED, id, index)
-> one random.Random that draws the scenario (program, timelines, history, fault
plan, schedule change points).  A scenario is plain JSON and is the replay file
body; executing a scenario is a pure function of it and of the code under /repo.

Exit codes: 0 = held on everything explored (KNOWN-FINDING lines allowed),
1 = VIOLATION (line printed), 2 = harness error (never prints VIOLATION).
"""
from __future__ import annotations

import collections
import concurrent.futures as cf
import faulthandler
import hashlib
import importlib
import json
import multiprocessing
import os
import random
import signal
import subprocess
import sys
import time
import traceback

VERIF = os.path.dirname(os.path.dirname(os.path.abspath(__file__)))
REPO = os.environ.get("VERIF_REPO", "/repo")
if REPO not in sys.path:
    sys.path.insert(0, REPO)


class Hang(BaseException):
    """Raised by the per-run wall watchdog (SIGALRM)."""


class HarnessError(Exception):
    pass


class Outcome:
    """Result of executing one scenario."""

    __slots__ = ("viol", "digest", "nontrivial", "probes", "faults", "sim_time", "steps", "info", "witness", "evals", "digests")

    def __init__(self):
        self.viol = []  # list of (rule, message)
        self.digest = None  # anything repr()-able describing the case (for distinctness)
        self.nontrivial = False
        self.probes = collections.Counter()
        self.faults = collections.Counter()
        self.sim_time = 0.0
        self.steps = 0
        self.info = None
        self.witness = None  # scenario that reproduces the violation directly (enumerating checks)
        self.evals = 1  # executions performed inside this scenario (enumerating checks)
        self.digests = None  # optional list of (digest, nontrivial) for the sub-runs

    def bad(self, rule, msg=""):
        self.viol.append((rule, str(msg)[:600]))


def run_seed(vseed, pid, index):
    h = hashlib.sha256(f"{vseed}:{pid}:{index}".encode()).digest()
    return int.from_bytes(h[:8], "big")


def h64(obj):
    return int.from_bytes(hashlib.blake2b(repr(obj).encode(), digest_size=8).digest(), "big")


def load_prop(pid):
    mod = importlib.import_module("props." + pid.lower())
    return mod.PROP


LAST_HANG = {"stack": None, "kind": None}


def _where(frame):
    rows = []
    for fs in traceback.extract_stack(frame, limit=14):
        fn = fs.filename
        for pre in (REPO + "/", VERIF + "/"):
            if fn.startswith(pre):
                fn = fn[len(pre):]
        rows.append("%s:%d %s" % (fn, fs.lineno, fs.name))
    return rows


ARMED = {"cpu0": 0.0, "wall0": 0.0, "cpu_s": 0.0, "wall_s": 0.0}


def _alarm(signum, frame):
    """CPU-time watchdog (ITIMER_PROF): the run has burnt its whole CPU budget, it spins.  The expiry is
    re-checked against CLOCK_PROCESS_CPUTIME_ID: the interval timer was seen to fire early (about once in 20 000
    arms on this kernel), and an early expiry must not become a verdict."""
    used = time.process_time() - ARMED["cpu0"]
    if used < ARMED["cpu_s"] * 0.97:
        signal.setitimer(signal.ITIMER_PROF, max(0.05, ARMED["cpu_s"] - used))
        return
    LAST_HANG["stack"], LAST_HANG["kind"] = _where(frame), "cpu"
    raise Hang()


def _alarm_wall(signum, frame):
    """Wall-clock fallback for a run that blocks without using CPU (a real lock): always a harness error."""
    used = time.monotonic() - ARMED["wall0"]
    if used < ARMED["wall_s"] * 0.97:
        signal.setitimer(signal.ITIMER_REAL, max(0.05, ARMED["wall_s"] - used))
        return
    LAST_HANG["stack"], LAST_HANG["kind"] = _where(frame), "wall"
    raise Hang()


def arm_watchdog(cpu_s):
    """(Re)start the per-run watchdog.  The budget is CPU time of this process, not wall time: a stalled or
    overloaded machine (or a paused VM) must not turn into a verdict; the wall timer is only a backstop."""
    signal.signal(signal.SIGPROF, _alarm)
    signal.signal(signal.SIGALRM, _alarm_wall)
    ARMED.update(cpu0=time.process_time(), wall0=time.monotonic(), cpu_s=cpu_s, wall_s=cpu_s * 5 + 60)
    signal.setitimer(signal.ITIMER_PROF, cpu_s)
    signal.setitimer(signal.ITIMER_REAL, cpu_s * 5 + 60)


def disarm_watchdog():
    signal.setitimer(signal.ITIMER_PROF, 0)
    signal.setitimer(signal.ITIMER_REAL, 0)


def guarded_execute(prop, sc, wall=None):
    """Execute one scenario under the watchdog.  An expiry is only a suspicion: on this (virtualised) machine a process
    was seen to lose 2 s and more in the middle of a run that normally takes milliseconds, with the lost time booked as
    its own CPU time.  The scenario is therefore executed again with three times the budget (at least 30 s), and only a second expiry
    counts: as the property's verdict where the watchdog is its oracle (hang_rule), as a harness error elsewhere."""
    wall = wall or getattr(prop, "run_wall", 20.0)
    for attempt, budget in enumerate((wall, max(3 * wall, 30.0))):
        arm_watchdog(budget)
        try:
            out = prop.execute(sc)
            if attempt:
                out.probes["watchdog_expiry_not_confirmed"] += 1
            return out
        except Hang:
            disarm_watchdog()
            if attempt == 0:
                continue
            hang_rule = getattr(prop, "hang_rule", None)
            if hang_rule and LAST_HANG["kind"] == "cpu":
                _note_error()  # (counts towards the cut-off as well: every further hang costs two watchdog expiries)
                out = Outcome()
                out.bad(hang_rule, "run did not finish within %.0fs of CPU time (and, run again, not within %.0fs)" % (wall, budget))
                out.digest = ("hang",)
                out.info = {"spinning_at": LAST_HANG["stack"]}
                return out
            path = None
            try:
                body = json.dumps(sc, sort_keys=True)
                os.makedirs(os.path.join(VERIF, "replays"), exist_ok=True)
                path = os.path.join(VERIF, "replays", "%s-hang-%s.json" % (prop.id, hashlib.sha256(body.encode()).hexdigest()[:12]))
                with open(path, "w") as f:
                    f.write(body)
            except Exception:
                pass
            raise HarnessError("scenario hung (%s watchdog, %s) at %s: %s" % (LAST_HANG["kind"], path, (LAST_HANG["stack"] or [])[-4:], json.dumps(sc)[:300]))
        finally:
            disarm_watchdog()


_PINNED = False
DUMP = bool(os.environ.get("VERIF_DUMP"))


_CPU_LOCK = []


def _pin(prop=None):
    """TH engine only: give this worker process one CPU of its own, so that baton passing between the simulated threads
    of a run is a same-core hand-off (no cross-core wake-ups) - that is what makes the TH engine scale with processes.
    The CPU is claimed through an advisory lock file, so that two checks running at the same time (a quick and a
    thorough run, a soak in the background) never pin workers to the same core: a worker starved by a pinned sibling
    made wall-clock watchdogs fire on the unchanged tree.  No free CPU -> not pinned; VT workers are never pinned."""
    global _PINNED
    if _PINNED:
        return
    _PINNED = True
    if prop is not None and "TH" not in str(getattr(prop, "engine", "")):
        return
    try:
        import fcntl
        import tempfile
        cpus = sorted(os.sched_getaffinity(0))
        ident = multiprocessing.current_process()._identity
        first = ((ident[0] - 1) if ident else os.getpid()) % len(cpus)
        for c in cpus[first:] + cpus[:first]:
            fd = os.open(os.path.join(tempfile.gettempdir(), ".verif_cpu_%d.lock" % c), os.O_CREAT | os.O_RDWR, 0o666)
            try:
                fcntl.flock(fd, fcntl.LOCK_EX | fcntl.LOCK_NB)
            except OSError:
                os.close(fd)
                continue
            _CPU_LOCK.append(fd)  # held until the worker exits
            os.sched_setaffinity(0, {c})
            return
    except Exception:
        pass


ERRS = None  # shared counter of scenario-level harness errors (hangs, crashes inside a scenario) of the running check
MAX_ERRS = 4  # after that many the check cannot end with exit 0 any more: the remaining scenarios are skipped instead of
#                paying a watchdog expiry (plus its confirmation run) for each of them on a tree that hangs everywhere


def _note_error():
    if ERRS is not None:
        with ERRS.get_lock():
            ERRS.value += 1


def _chunk(args):
    pid, tier, vseed, start, count, deadline = args
    faulthandler.enable()
    faulthandler.register(signal.SIGUSR1, all_threads=True)  # kill -USR1 <worker pid> prints where it is
    prop = load_prop(pid)
    _pin(prop)
    known = load_known()
    agg = {
        "dump": [],
        "suppressed": collections.Counter(),
        "n": 0, "digests": set(), "nontrivial": 0, "probes": collections.Counter(), "faults": collections.Counter(),
        "sim_time": 0.0, "steps": 0, "samples": [], "viol": [], "errors": [], "nt_digests": set(), "scenarios": 0,
    }
    for i in range(start, start + count):
        if time.time() > deadline or (ERRS is not None and ERRS.value >= MAX_ERRS):
            break
        seed = run_seed(vseed, pid, i)
        rng = random.Random(seed)
        try:
            sc = prop.generate(rng, tier)
            sc["seed"] = seed
            sc["index"] = i
            out = guarded_execute(prop, sc)
        except HarnessError as e:
            agg["errors"].append(str(e)[:800])
            _note_error()
            continue
        except (KeyboardInterrupt, SystemExit):
            raise
        except BaseException:  # noqa: BLE001 - also a work-budget exception (BaseException by design) that no scenario-level handler took
            agg["errors"].append("index %d seed %d: %s" % (i, seed, traceback.format_exc()[-1500:]))
            _note_error()
            continue
        agg["n"] += out.evals
        agg["scenarios"] += 1
        if DUMP:
            agg["dump"].append((i, [h64(dg) for dg, _ in (out.digests if out.digests is not None else [(out.digest, 0)])],
                                [v[0] for v in out.viol], out.steps, round(out.sim_time, 6)))
        for dg, nt in (out.digests if out.digests is not None else [(out.digest, out.nontrivial)]):
            d = h64(dg)
            agg["digests"].add(d)
            if nt:
                agg["nontrivial"] += 1
                agg["nt_digests"].add(d)
        agg["probes"].update(out.probes)
        agg["faults"].update(out.faults)
        agg["sim_time"] += out.sim_time
        agg["steps"] += out.steps
        if len(agg["samples"]) < 2 and (out.nontrivial or (out.digests and any(nt for _, nt in out.digests))):
            agg["samples"].append({"scenario": sc, "observed": out.info})
        if out.viol:
            wsc = out.witness or sc
            wsc.setdefault("seed", seed)
            wsc.setdefault("index", i)
            k = known_match(prop, known, wsc, out.viol[0][0], out.viol[0][1])
            if k is not None:
                agg["suppressed"][k["id"]] += 1  # a listed finding: counted, never crowds out other violations
            elif len(agg["viol"]) < 6:
                agg["viol"].append({"scenario": wsc, "viol": out.viol})
    return agg


def _json_default(o):
    return repr(o)


# ---------------------------------------------------------------- known findings

def load_known():
    p = os.path.join(VERIF, "known_findings.json")
    if not os.path.exists(p):
        return []
    with open(p) as f:
        return json.load(f).get("findings", [])


def known_match(prop, known, sc, rule, msg):
    sig = prop.signature(sc, rule, msg) if hasattr(prop, "signature") else {"rule": rule}
    sig = dict(sig)
    sig.setdefault("rule", rule)
    for k in known:
        if k.get("property") != prop.id or k.get("status") != "open":
            continue
        want = k.get("signature", {})
        if all(sig.get(a) == b for a, b in want.items()):
            return k
    return None


# ---------------------------------------------------------------- shrinking

def _paths(node, path=()):
    yield path, node
    if isinstance(node, dict):
        for k in node:
            yield from _paths(node[k], path + (k,))
    elif isinstance(node, list):
        for i, v in enumerate(node):
            yield from _paths(v, path + (i,))


def _get(node, path):
    for p in path:
        node = node[p]
    return node


def _set(root, path, value):
    root = json.loads(json.dumps(root))
    if not path:
        return value
    node = root
    for p in path[:-1]:
        node = node[p]
    node[path[-1]] = value
    return root


def _is_event(n):
    """[t, 'N'|'C'|'E', value?] triples and ['opname', args...] call records are atomic for the shrinker."""
    if 2 <= len(n) <= 3 and isinstance(n[1], str) and n[1] in ("N", "C", "E") and isinstance(n[0], (int, float)):
        return True
    return len(n) >= 1 and isinstance(n[0], str) and all(isinstance(x, (str, int, float, bool, type(None))) for x in n)


def _candidates(sc, prop):
    """Structural delta-debugging candidates, most aggressive first."""
    custom = getattr(prop, "shrink_candidates", None)
    if custom:
        yield from custom(sc)
    frozen = set(getattr(prop, "shrink_frozen", ())) | {"sub_t", "sub2_t", "horizon", "seed", "index", "id", "pool"}
    items = [(p, n) for p, n in _paths(sc) if not (p and p[0] in ("seed", "index", "property"))]
    # replace an operator node by one of its inputs
    for p, n in items:
        if isinstance(n, dict) and "op" in n and isinstance(n.get("in"), list):
            for child in n["in"]:
                if isinstance(child, (dict, str)):
                    yield _set(sc, p, child)
    # drop list elements (halves first)
    for p, n in items:
        if isinstance(n, list) and n and not (p and p[-1] in frozen) and not _is_event(n):
            if len(n) > 3:
                yield _set(sc, p, n[: len(n) // 2])
                yield _set(sc, p, n[len(n) // 2:])
            for i in range(len(n)):
                yield _set(sc, p, n[:i] + n[i + 1:])
    # shrink ints
    for p, n in items:
        if isinstance(n, bool) or (p and p[-1] in frozen):
            continue
        if isinstance(n, int) and n not in (0,):
            for c in (0, n // 2, n - 1 if n > 0 else n + 1):
                if c != n:
                    yield _set(sc, p, c)


def shrink(prop, sc, rule, budget_s=25.0):
    t0 = time.time()
    best = sc
    improved = True
    tried = 0
    while improved and time.time() - t0 < budget_s:
        improved = False
        for cand in _candidates(best, prop):
            if time.time() - t0 > budget_s:
                break
            if len(json.dumps(cand)) >= len(json.dumps(best)):
                continue
            valid = getattr(prop, "valid", None)
            if valid is not None:
                try:
                    if not valid(cand):
                        continue  # the candidate is not a scenario the generator could have produced
                except Exception:
                    continue
            tried += 1
            try:
                out = guarded_execute(prop, cand, wall=min(10.0, getattr(prop, "run_wall", 20.0)))
            except BaseException:
                continue
            if any(r == rule for r, _ in out.viol):
                best = cand
                improved = True
                break
    return best, tried


# ---------------------------------------------------------------- replay

def write_replay(prop, sc, rule, msg, extra=None):
    os.makedirs(os.path.join(VERIF, "replays"), exist_ok=True)
    body = {"property": prop.id, "rule": rule, "violation": msg, "scenario": sc}
    if extra:
        body.update(extra)
    dig = hashlib.sha256(json.dumps(sc, sort_keys=True, default=_json_default).encode()).hexdigest()[:12]
    path = os.path.join(VERIF, "replays", "%s-%s.json" % (prop.id, dig))
    with open(path, "w") as f:
        json.dump(body, f, indent=1, default=_json_default)
    return path


def replay_file(pid, path, quiet=False):
    prop = load_prop(pid)
    with open(path) as f:
        body = json.load(f)
    sc = body["scenario"]
    out = guarded_execute(prop, sc)
    want = body.get("rule")
    hit = [v for v in out.viol if want is None or v[0] == want] or out.viol
    if hit:
        if not quiet:
            for r, m in hit[:3]:
                print("violation rule=%s: %s" % (r, m))
            print("VIOLATION property=%s replay=%s" % (pid, path))
        return 1
    if not quiet:
        print("replay of %s: no violation" % path)
    return 0


def replay_fresh(pid, path):
    """Re-run a replay file in a fresh interpreter; True if it reproduces."""
    env = dict(os.environ)
    env["PYTHONHASHSEED"] = "0"
    r = subprocess.run([sys.executable, os.path.join(VERIF, "bin", "check"), pid, "--replay", path],
                       capture_output=True, text=True, env=env, timeout=300)
    return r.returncode == 1 and "VIOLATION" in r.stdout


# ---------------------------------------------------------------- main entry

def check(pid, tier="quick", runs=None, procs=None, vseed=None, budget=None):
    t0 = time.time()
    prop = load_prop(pid)
    vseed = int(os.environ.get("VERIF_SEED", "0")) if vseed is None else vseed
    tier = os.environ.get("VERIF_TIER", tier) if tier is None else tier
    runs = runs or (prop.quick_runs if tier == "quick" else prop.thorough_runs)
    budget = budget or (getattr(prop, "quick_budget", 1500.0) if tier == "quick" else getattr(prop, "thorough_budget", 900.0))
    procs = procs or int(os.environ.get("VERIF_PROCS", "0")) or min(8, os.cpu_count() or 1)
    deadline = t0 + budget
    print("check %s tier=%s VERIF_SEED=%d runs<=%d procs=%d repo=%s" % (pid, tier, vseed, runs, procs, REPO))
    sys.stdout.flush()
    known = load_known()

    # fixed chunking so the set of run indices never depends on the worker count
    csize = max(1, min(getattr(prop, "chunk", 200), (runs + procs * 4 - 1) // (procs * 4)))
    tasks = [(pid, tier, vseed, s, min(csize, runs - s), deadline) for s in range(0, runs, csize)]
    total = {
        "n": 0, "digests": set(), "nt_digests": set(), "nontrivial": 0, "probes": collections.Counter(), "faults": collections.Counter(),
        "sim_time": 0.0, "steps": 0, "samples": [], "viol": [], "errors": [], "scenarios": 0,
    }
    suppressed = collections.Counter()
    dump = []
    ctx = multiprocessing.get_context("fork")
    harness_error = None
    global ERRS
    ERRS = ctx.Value("i", 0)  # inherited by the forked workers
    with cf.ProcessPoolExecutor(max_workers=procs, mp_context=ctx) as ex:
        futs = [ex.submit(_chunk, t) for t in tasks]
        try:
            for f in cf.as_completed(futs, timeout=budget + 240):
                a = f.result()
                total["n"] += a["n"]
                total["scenarios"] += a["scenarios"]
                total["digests"] |= a["digests"]
                total["nt_digests"] |= a["nt_digests"]
                total["nontrivial"] += a["nontrivial"]
                total["probes"].update(a["probes"])
                total["faults"].update(a["faults"])
                total["sim_time"] += a["sim_time"]
                total["steps"] += a["steps"]
                if len(total["samples"]) < 3:
                    total["samples"].extend(a["samples"][: 3 - len(total["samples"])])
                total["viol"].extend(a["viol"])
                suppressed.update(a["suppressed"])
                dump.extend(a["dump"])
                total["errors"].extend(a["errors"])
        except (cf.TimeoutError, cf.process.BrokenProcessPool) as e:
            harness_error = "worker pool failed: %r" % (e,)
            for p in list(getattr(ex, "_processes", {}).values()):
                try:
                    p.kill()
                except Exception:
                    pass
    if DUMP:
        with open(os.environ["VERIF_DUMP"], "w") as f:
            for row in sorted(dump):
                f.write(json.dumps(row) + "\n")
    if harness_error:
        print("HARNESS-ERROR property=%s %s" % (pid, harness_error))
        return 2
    scenario_errors = None
    if total["errors"]:
        # scenarios the harness could not finish (hung twice, raised inside the simulator): exit 2 - unless reproducible
        # violations were found as well, which say more (a change that breaks the property often makes other scenarios hang)
        scenario_errors = "%d scenario(s) raised inside the harness; first: %s" % (len(total["errors"]), total["errors"][0])

    # ---- witnesses of open known findings
    exit_code = 0
    known_lines = []
    for k in known:
        if k.get("property") != pid or k.get("status") != "open":
            continue
        wp = os.path.join(VERIF, k["witness"]) if k.get("witness") else None
        still = None
        if wp and os.path.exists(wp):
            try:
                still = replay_file(pid, wp, quiet=True) == 1
            except HarnessError:
                still = None
        line = "KNOWN-FINDING: property=%s %s" % (pid, k["what"])
        if still is False:
            line += " [witness no longer reproduces on this tree]"
        known_lines.append(line)
        print(line)

    # ---- violations
    reported = []
    seen_rules = collections.Counter()
    total["viol"].sort(key=lambda v: (v["scenario"].get("index", 0)))
    for v in total["viol"]:
        sc = v["scenario"]
        for rule, msg in v["viol"][:1]:
            k = known_match(prop, known, sc, rule, msg)
            if k is not None:
                suppressed[k["id"]] += 1
                continue
            if seen_rules[rule] >= 2 or len(reported) >= 4:
                continue
            seen_rules[rule] += 1
            small, tried = shrink(prop, sc, rule)
            # re-derive message; make sure the shrunk case is not a known finding
            out = guarded_execute(prop, small)
            hit = [x for x in out.viol if x[0] == rule]
            if not hit or known_match(prop, known, small, rule, hit[0][1]) is not None:
                small, hit = sc, [(rule, msg)]
            path = write_replay(prop, small, rule, hit[0][1], {"original_scenario": sc, "shrink_candidates_tried": tried})
            ok = replay_fresh(pid, path)
            if not ok:
                # a violation that does not replay is a simulator determinism failure, not a finding
                print("HARNESS-ERROR property=%s violation rule=%s did not reproduce in a fresh interpreter (%s)" % (pid, rule, path))
                return 2
            print("violation rule=%s: %s" % (rule, hit[0][1]))
            print("VIOLATION property=%s replay=%s" % (pid, path))
            reported.append(path)
            exit_code = 1
    if scenario_errors:
        if exit_code == 0:
            print("HARNESS-ERROR property=%s %s" % (pid, scenario_errors))
            return 2
        print("note: besides the violation(s) above, %s" % scenario_errors[:300])

    wall = time.time() - t0
    cov = {
        "evaluations": total["n"],
        "distinct_nontrivial": len(total["nt_digests"]),
        "distinct_cases": len(total["digests"]),
        "nontrivial_evaluations": total["nontrivial"],
        "rule": prop.rule,
        "samples": total["samples"] or [{"note": "no non-trivial sample recorded"}],
        "scenarios": total["scenarios"],
        "runs_requested": runs,
        "runs_per_hour": int(total["n"] / wall * 3600) if wall > 0 else 0,
        "simulated_time_covered": total["sim_time"],
        "simulated_time_unit": getattr(prop, "time_unit", "virtual seconds (scheduler ticks)"),
        "scheduler_steps": total["steps"],
        "faults_injected": dict(sorted(total["faults"].items())),
        "probes": dict(sorted(total["probes"].items())),
        "engine": prop.engine,
        "real_code": getattr(prop, "real", ["reactivex/** (all library code on the path of the scenario)"]),
        "stubs": getattr(prop, "stubs", []),
        "known_findings_suppressed": dict(suppressed),
        "known_finding_lines": known_lines,
        "exhaustive": False,
    }
    if hasattr(prop, "post_evidence"):
        prop.post_evidence(cov)
    stuck = [p for p in getattr(prop, "required_probes", ()) if not total["probes"].get(p)]
    if stuck:
        cov["probes_stuck_at_zero"] = stuck
    ev = {
        "property_id": pid,
        "tier": tier,
        "seed": vseed,
        "level": prop.level,
        "coverage": cov,
        "assumptions": getattr(prop, "assumptions", []),
        "wall_s": round(wall, 2),
        "violations": len(reported),
    }
    evdir = os.environ.get("VERIF_EVIDENCE_DIR") or os.path.join(VERIF, "evidence")  # self-tests and mutant runs write elsewhere
    os.makedirs(evdir, exist_ok=True)
    with open(os.path.join(evdir, pid + ".json"), "w") as f:
        json.dump(ev, f, indent=1, default=_json_default)
    print("%s: %d runs, %d distinct non-trivial, %.1fs, faults=%s, suppressed=%s%s" % (
        pid, total["n"], len(total["nt_digests"]), wall, dict(total["faults"]), dict(suppressed),
        " STUCK-PROBES=%s" % stuck if stuck else ""))
    return exit_code


def main(argv=None):
    import argparse

    ap = argparse.ArgumentParser()
    ap.add_argument("pid")
    ap.add_argument("--tier", default=os.environ.get("VERIF_TIER", "quick"))
    ap.add_argument("--runs", type=int)
    ap.add_argument("--procs", type=int)
    ap.add_argument("--budget", type=float)
    ap.add_argument("--replay")
    a = ap.parse_args(argv)
    faulthandler.register(signal.SIGUSR1, all_threads=True)  # kill -USR1 <pid> prints where the main process is
    if a.replay:
        try:
            return replay_file(a.pid, a.replay)
        except HarnessError as e:
            print("HARNESS-ERROR property=%s %s" % (a.pid, e))
            return 2
    return check(a.pid, a.tier, a.runs, a.procs, None, a.budget)
