"""Operator catalogue: one row per public operator / factory form.

row = Row(arity, gen(ctx) -> JSON args, build(w, nid, a, ins) -> Observable, tags)

Programs are JSON trees  {"op": name, "id": "n3", "a": {...}, "in": [node | "s0", ...]}.
Callback sites are named "<node id>.<arg>".  Tags:
  cb         has at least one user callback (C09)
  time       uses the scheduler clock
  inner      emits observables (windows / groups)
  multicast  shares a subscription (excluded from C04)
  stateful   uses a stateful callback (excluded from C04/C44 differentials)
  pool       takes observables from the source pool through a callback / argument
  term       may terminate early
"""
from __future__ import annotations

import reactivex as rx
from reactivex import operators as ops

from simlib import vt


class Row:
    __slots__ = ("name", "arity", "gen", "build", "tags")

    def __init__(self, name, arity, gen, build, tags):
        self.name, self.arity, self.gen, self.build, self.tags = name, arity, gen, build, frozenset(tags)


ROWS = {}


def row(name, arity, gen, build, tags=()):
    ROWS[name] = Row(name, arity, gen, build, tags)


# ------------------------------------------------------------------ timelines

def gen_timeline(rng, hot, maxn=5, falsy_p=0.3, terminal=None, nonconforming_p=0.0, positive_first=False, base=None):
    n = rng.choice([0, 1, 1, 2, 2, 3, 3, 4, maxn])
    n = min(n, maxn)
    base = (150 if hot else 0) if base is None else base
    lo = 10 if positive_first else 0
    ts = sorted(rng.choice(range(lo, 300, 10)) for _ in range(n))
    if rng.random() < 0.3 and n >= 2:  # burst: two events at one instant
        i = rng.randrange(n - 1)
        ts[i + 1] = ts[i]
    ev = [[base + t, "N", vt.gen_value(rng, falsy_p)] for t in ts]
    last = ts[-1] if ts else lo
    k = terminal or rng.choice("CCCEX")
    if k == "C":
        ev.append([base + last + rng.choice([0, 10, 50]), "C"])
    elif k == "E":
        ev.append([base + last + rng.choice([0, 10, 50]), "E", {"err": rng.choice(["x", "y"])}])
    if ev and rng.random() < nonconforming_p:
        t = ev[-1][0]
        tail = rng.choice([
            [[t + 10, "N", 99]],
            [[t + 10, "C"]],
            [[t, "E", {"err": "z"}]],
            [[t + 10, "N", 98], [t + 20, "C"], [t + 30, "N", 97]],
            [[t, "N", 96]],
        ])
        ev.extend(tail)
    return ev


class Ctx:
    """Generation context: PRNG + the growing list of source specs."""

    def __init__(self, rng, hot_p=0.5, falsy_p=0.3, nonconforming_p=0.0, rogue_p=0.0, sync_p=0.1, kinds=None):
        self.rng = rng
        self.sources = []
        self.hot_p, self.falsy_p, self.nonconforming_p, self.rogue_p, self.sync_p = hot_p, falsy_p, nonconforming_p, rogue_p, sync_p
        self.kinds = kinds
        self.nid = 0

    def new_source(self, kind=None, positive_first=False, terminal=None, prefix="s", maxn=5):
        rng = self.rng
        if kind is None:
            if self.kinds:
                kind = rng.choice(self.kinds)
            else:
                r = rng.random()
                kind = "sync" if r < self.sync_p else ("hot" if r < self.sync_p + self.hot_p else "cold")
        sid = "%s%d" % (prefix, len(self.sources))
        spec = {"id": sid, "kind": kind,
                "events": gen_timeline(rng, kind == "hot", maxn, self.falsy_p, terminal, self.nonconforming_p, positive_first)}
        if self.rogue_p and rng.random() < self.rogue_p:
            spec["rogue"] = True
        self.sources.append(spec)
        return sid

    def pool(self, n=2, positive_first=False, maxn=3):
        """Inner/duration/closing sources: cold, short, optionally with a positive first event."""
        return [self.new_source("cold" if self.rng.random() < 0.85 else "sync" if not positive_first else "cold",
                                positive_first=positive_first, prefix="p", maxn=maxn) for _ in range(n)]

    def fn(self, kind, **kw):
        rng = self.rng
        m = rng.choice([1, 2, 2, 3])
        d = {"k": kind, "m": m, "r": rng.randrange(m)}
        d.update(kw)
        return d

    def next_id(self):
        self.nid += 1
        return "n%d" % self.nid


def to_notification(v):
    from reactivex.notification import OnCompleted, OnError, OnNext
    r = vt.h(v) % 7
    return OnCompleted() if r == 0 else OnError(vt.SourceError("demat")) if r == 1 else OnNext(("d", v))


def F(w, nid, a, name, pool=None):
    """Instrumented callback for argument `name` of node `nid`."""
    spec = a[name]
    if spec is None:
        return None
    if pool is None and "pool" in a:
        pool = [w.sources[s] for s in a["pool"]]
    return w.fn(spec["k"], "%s.%s" % (nid, name), spec.get("m", 2), spec.get("r", 0), pool, spec)


def P(w, a, key="pool"):
    return [w.sources[s] for s in a[key]]


def V(x):
    return vt.dec(x)


# ------------------------------------------------------------------ unary rows
R = row
cnt = lambda c, hi=4: c.rng.randrange(0, hi + 1)  # noqa: E731
dur = lambda c: c.rng.choice([0, 10, 20, 30, 50, 60])  # noqa: E731
pdur = lambda c: c.rng.choice([10, 20, 30, 50, 60])  # noqa: E731

R("map", 1, lambda c: {"f": c.fn("map")}, lambda w, n, a, i: i[0].pipe(ops.map(F(w, n, a, "f"))), {"cb"})
R("map_none", 1, lambda c: {}, lambda w, n, a, i: i[0].pipe(ops.map()), ())
R("map_indexed", 1, lambda c: {"f": c.fn("map_i")}, lambda w, n, a, i: i[0].pipe(ops.map_indexed(F(w, n, a, "f"))), {"cb"})
R("starmap", 1, lambda c: {"f": c.fn("star")}, lambda w, n, a, i: i[0].pipe(ops.pairwise(), ops.starmap(F(w, n, a, "f"))), {"cb"})
R("starmap_indexed", 1, lambda c: {"f": c.fn("star")}, lambda w, n, a, i: i[0].pipe(ops.pairwise(), ops.starmap_indexed(F(w, n, a, "f"))), {"cb"})
R("filter", 1, lambda c: {"f": c.fn("pred")}, lambda w, n, a, i: i[0].pipe(ops.filter(F(w, n, a, "f"))), {"cb"})
R("filter_indexed", 1, lambda c: {"f": c.fn("pred_i")}, lambda w, n, a, i: i[0].pipe(ops.filter_indexed(F(w, n, a, "f"))), {"cb"})
R("pluck", 1, lambda c: {"key": c.rng.choice([0, 1])}, lambda w, n, a, i: i[0].pipe(ops.pairwise(), ops.pluck(a["key"])), ())
R("pluck_attr", 1, lambda c: {}, lambda w, n, a, i: i[0].pipe(ops.timestamp(), ops.pluck_attr("value")), {"time"})
R("as_observable", 1, lambda c: {}, lambda w, n, a, i: i[0].pipe(ops.as_observable()), ())
R("ignore_elements", 1, lambda c: {}, lambda w, n, a, i: i[0].pipe(ops.ignore_elements()), ())
R("materialize", 1, lambda c: {}, lambda w, n, a, i: i[0].pipe(ops.materialize()), ())
R("dematerialize", 1, lambda c: {}, lambda w, n, a, i: i[0].pipe(ops.materialize(), ops.dematerialize()), ())
# ... and over a hand-made stream of notifications that ends by plain completion (or error), not by a materialized terminal
R("dematerialize_mapped", 1, lambda c: {}, lambda w, n, a, i: i[0].pipe(ops.map(to_notification), ops.dematerialize()), ())
R("do_action", 1, lambda c: {"f": c.fn("action"), "e": c.fn("action"), "c": c.fn("action")},
  lambda w, n, a, i: i[0].pipe(ops.do_action(F(w, n, a, "f"), F(w, n, a, "e"), F(w, n, a, "c"))), {"cb"})
R("tap", 1, lambda c: {"f": c.fn("action")}, lambda w, n, a, i: i[0].pipe(ops.tap(F(w, n, a, "f"))), {"cb"})
R("take", 1, lambda c: {"n": cnt(c)}, lambda w, n, a, i: i[0].pipe(ops.take(a["n"])), {"term"})
R("skip", 1, lambda c: {"n": cnt(c)}, lambda w, n, a, i: i[0].pipe(ops.skip(a["n"])), ())
R("take_while", 1, lambda c: {"f": c.fn("pred"), "inc": c.rng.random() < 0.4},
  lambda w, n, a, i: i[0].pipe(ops.take_while(F(w, n, a, "f"), a["inc"])), {"cb", "term"})
R("take_while_indexed", 1, lambda c: {"f": c.fn("pred_i"), "inc": c.rng.random() < 0.4},
  lambda w, n, a, i: i[0].pipe(ops.take_while_indexed(F(w, n, a, "f"), a["inc"])), {"cb", "term"})
R("skip_while", 1, lambda c: {"f": c.fn("pred")}, lambda w, n, a, i: i[0].pipe(ops.skip_while(F(w, n, a, "f"))), {"cb"})
R("skip_while_indexed", 1, lambda c: {"f": c.fn("pred_i")}, lambda w, n, a, i: i[0].pipe(ops.skip_while_indexed(F(w, n, a, "f"))), {"cb"})
R("take_last", 1, lambda c: {"n": cnt(c)}, lambda w, n, a, i: i[0].pipe(ops.take_last(a["n"])), ())
R("skip_last", 1, lambda c: {"n": cnt(c)}, lambda w, n, a, i: i[0].pipe(ops.skip_last(a["n"])), ())
R("take_last_buffer", 1, lambda c: {"n": cnt(c)}, lambda w, n, a, i: i[0].pipe(ops.take_last_buffer(a["n"])), ())
R("element_at", 1, lambda c: {"n": cnt(c)}, lambda w, n, a, i: i[0].pipe(ops.element_at(a["n"])), {"term"})
R("element_at_or_default", 1, lambda c: {"n": cnt(c), "d": vt.gen_value(c.rng, 0.5)},
  lambda w, n, a, i: i[0].pipe(ops.element_at_or_default(a["n"], V(a["d"]))), {"term"})
R("find", 1, lambda c: {"f": c.fn("pred")}, lambda w, n, a, i: i[0].pipe(ops.find(F(w, n, a, "f"))), {"cb", "term"})
R("find_index", 1, lambda c: {"f": c.fn("pred")}, lambda w, n, a, i: i[0].pipe(ops.find_index(F(w, n, a, "f"))), {"cb", "term"})
R("pairwise", 1, lambda c: {}, lambda w, n, a, i: i[0].pipe(ops.pairwise()), ())
R("start_with", 1, lambda c: {"v": [vt.gen_value(c.rng, 0.5) for _ in range(c.rng.randrange(0, 3))]},
  lambda w, n, a, i: i[0].pipe(ops.start_with(*[V(x) for x in a["v"]])), ())
R("default_if_empty", 1, lambda c: {"d": vt.gen_value(c.rng, 0.5)}, lambda w, n, a, i: i[0].pipe(ops.default_if_empty(V(a["d"]))), ())
R("distinct", 1, lambda c: {"key": c.rng.choice([None, c.fn("key")]), "cmp": c.rng.choice([None, c.fn("cmp")])},
  lambda w, n, a, i: i[0].pipe(ops.distinct(F(w, n, a, "key"), F(w, n, a, "cmp"))), {"cb"})
R("distinct_until_changed", 1, lambda c: {"key": c.rng.choice([None, c.fn("key")]), "cmp": c.rng.choice([None, c.fn("cmp")])},
  lambda w, n, a, i: i[0].pipe(ops.distinct_until_changed(F(w, n, a, "key"), F(w, n, a, "cmp"))), {"cb"})
R("slice", 1, lambda c: {"start": c.rng.choice([None, 0, 1, 2, -1, -2]), "stop": c.rng.choice([None, 0, 1, 3, -1]), "step": c.rng.choice([None, 1, 2])},
  lambda w, n, a, i: i[0].pipe(ops.slice(a["start"], a["stop"], a["step"])), {"term"})

# aggregates
R("reduce", 1, lambda c: {"f": c.fn("acc"), "seed": c.rng.choice([None, {"v": vt.gen_value(c.rng, 0.5)}])},
  lambda w, n, a, i: i[0].pipe(ops.reduce(F(w, n, a, "f"), V(a["seed"]["v"])) if a["seed"] else ops.reduce(F(w, n, a, "f"))), {"cb"})
R("scan", 1, lambda c: {"f": c.fn("acc"), "seed": c.rng.choice([None, {"v": vt.gen_value(c.rng, 0.5)}])},
  lambda w, n, a, i: i[0].pipe(ops.scan(F(w, n, a, "f"), V(a["seed"]["v"])) if a["seed"] else ops.scan(F(w, n, a, "f"))), {"cb"})
R("count", 1, lambda c: {"f": c.rng.choice([None, c.fn("pred")])}, lambda w, n, a, i: i[0].pipe(ops.count(F(w, n, a, "f"))), {"cb"})
R("sum", 1, lambda c: {"f": c.fn("num")}, lambda w, n, a, i: i[0].pipe(ops.sum(F(w, n, a, "f"))), {"cb"})
R("average", 1, lambda c: {"f": c.fn("num")}, lambda w, n, a, i: i[0].pipe(ops.average(F(w, n, a, "f"))), {"cb"})
R("min", 1, lambda c: {"f": c.fn("num")}, lambda w, n, a, i: i[0].pipe(ops.map(F(w, n, a, "f")), ops.min()), {"cb"})
R("max", 1, lambda c: {"f": c.fn("num")}, lambda w, n, a, i: i[0].pipe(ops.map(F(w, n, a, "f")), ops.max()), {"cb"})
R("min_by", 1, lambda c: {"f": c.fn("num")}, lambda w, n, a, i: i[0].pipe(ops.min_by(F(w, n, a, "f"))), {"cb"})
R("max_by", 1, lambda c: {"f": c.fn("num")}, lambda w, n, a, i: i[0].pipe(ops.max_by(F(w, n, a, "f"))), {"cb"})
R("to_list", 1, lambda c: {}, lambda w, n, a, i: i[0].pipe(ops.to_list()), ())
R("to_iterable", 1, lambda c: {}, lambda w, n, a, i: i[0].pipe(ops.to_iterable()), ())
R("to_set", 1, lambda c: {"f": c.fn("num")}, lambda w, n, a, i: i[0].pipe(ops.map(F(w, n, a, "f")), ops.to_set()), {"cb"})
R("to_dict", 1, lambda c: {"f": c.fn("num"), "g": c.rng.choice([None, c.fn("map")])},
  lambda w, n, a, i: i[0].pipe(ops.to_dict(F(w, n, a, "f"), F(w, n, a, "g"))), {"cb"})
R("first", 1, lambda c: {"f": c.rng.choice([None, c.fn("pred")])}, lambda w, n, a, i: i[0].pipe(ops.first(F(w, n, a, "f"))), {"cb", "term"})
R("first_or_default", 1, lambda c: {"f": c.rng.choice([None, c.fn("pred")]), "d": vt.gen_value(c.rng, 0.5)},
  lambda w, n, a, i: i[0].pipe(ops.first_or_default(F(w, n, a, "f"), V(a["d"]))), {"cb", "term"})
R("last", 1, lambda c: {"f": c.rng.choice([None, c.fn("pred")])}, lambda w, n, a, i: i[0].pipe(ops.last(F(w, n, a, "f"))), {"cb"})
R("last_or_default", 1, lambda c: {"f": c.rng.choice([None, c.fn("pred")]), "d": vt.gen_value(c.rng, 0.5)},
  lambda w, n, a, i: i[0].pipe(ops.last_or_default(V(a["d"]), F(w, n, a, "f"))), {"cb"})
R("single", 1, lambda c: {"f": c.rng.choice([None, c.fn("pred")])}, lambda w, n, a, i: i[0].pipe(ops.single(F(w, n, a, "f"))), {"cb", "term"})
R("single_or_default", 1, lambda c: {"f": c.rng.choice([None, c.fn("pred")]), "d": vt.gen_value(c.rng, 0.5)},
  lambda w, n, a, i: i[0].pipe(ops.single_or_default(F(w, n, a, "f"), V(a["d"]))), {"cb", "term"})
R("single_or_default_async", 1, lambda c: {"has": c.rng.random() < 0.5, "d": vt.gen_value(c.rng, 0.5)},
  lambda w, n, a, i: i[0].pipe(ops.single_or_default_async(a["has"], V(a["d"]))), {"term"})
R("all", 1, lambda c: {"f": c.fn("pred")}, lambda w, n, a, i: i[0].pipe(ops.all(F(w, n, a, "f"))), {"cb", "term"})
R("some", 1, lambda c: {"f": c.rng.choice([None, c.fn("pred")])}, lambda w, n, a, i: i[0].pipe(ops.some(F(w, n, a, "f"))), {"cb", "term"})
R("contains", 1, lambda c: {"v": vt.gen_value(c.rng, 0.5), "cmp": c.rng.choice([None, c.fn("cmp"), c.fn("cmp_le")])},
  lambda w, n, a, i: i[0].pipe(ops.contains(V(a["v"]), F(w, n, a, "cmp"))), {"cb", "term"})
R("is_empty", 1, lambda c: {}, lambda w, n, a, i: i[0].pipe(ops.is_empty()), {"term"})
R("sequence_equal_iter", 1, lambda c: {"v": [vt.gen_value(c.rng, 0.5) for _ in range(c.rng.randrange(0, 4))], "cmp": c.rng.choice([None, c.fn("cmp")])},
  lambda w, n, a, i: i[0].pipe(ops.sequence_equal([V(x) for x in a["v"]], F(w, n, a, "cmp"))), {"cb", "term"})

# time
R("delay", 1, lambda c: {"d": dur(c)}, lambda w, n, a, i: i[0].pipe(ops.delay(a["d"])), {"time"})
R("delay_subscription", 1, lambda c: {"d": dur(c)}, lambda w, n, a, i: i[0].pipe(ops.delay_subscription(a["d"])), {"time"})
R("delay_with_mapper", 1, lambda c: {"pool": c.pool(2), "f": c.fn("inner"), "sd": c.rng.random() < 0.3},
  lambda w, n, a, i: i[0].pipe(ops.delay_with_mapper(P(w, a)[0], F(w, n, a, "f")) if a["sd"] else ops.delay_with_mapper(F(w, n, a, "f"))), {"cb", "time", "pool"})
R("timestamp", 1, lambda c: {}, lambda w, n, a, i: i[0].pipe(ops.timestamp()), {"time"})
R("time_interval", 1, lambda c: {}, lambda w, n, a, i: i[0].pipe(ops.time_interval()), {"time"})
R("debounce", 1, lambda c: {"d": pdur(c)}, lambda w, n, a, i: i[0].pipe(ops.debounce(a["d"])), {"time"})
R("throttle_with_timeout", 1, lambda c: {"d": pdur(c)}, lambda w, n, a, i: i[0].pipe(ops.throttle_with_timeout(a["d"])), {"time"})
R("throttle_first", 1, lambda c: {"d": dur(c)}, lambda w, n, a, i: i[0].pipe(ops.throttle_first(a["d"])), {"time"})
R("throttle_with_mapper", 1, lambda c: {"pool": c.pool(2, True), "f": c.fn("inner")},
  lambda w, n, a, i: i[0].pipe(ops.throttle_with_mapper(F(w, n, a, "f"))), {"cb", "time", "pool"})
R("sample_time", 1, lambda c: {"d": pdur(c)}, lambda w, n, a, i: i[0].pipe(ops.sample(a["d"])), {"time"})
R("take_with_time", 1, lambda c: {"d": dur(c) * 3}, lambda w, n, a, i: i[0].pipe(ops.take_with_time(a["d"])), {"time", "term"})
R("skip_with_time", 1, lambda c: {"d": dur(c) * 3}, lambda w, n, a, i: i[0].pipe(ops.skip_with_time(a["d"])), {"time"})
R("take_until_with_time", 1, lambda c: {"d": dur(c) * 3}, lambda w, n, a, i: i[0].pipe(ops.take_until_with_time(a["d"])), {"time", "term"})
R("skip_until_with_time", 1, lambda c: {"d": dur(c) * 3}, lambda w, n, a, i: i[0].pipe(ops.skip_until_with_time(a["d"])), {"time"})
R("take_last_with_time", 1, lambda c: {"d": dur(c) * 2}, lambda w, n, a, i: i[0].pipe(ops.take_last_with_time(a["d"])), {"time"})
R("skip_last_with_time", 1, lambda c: {"d": dur(c) * 2}, lambda w, n, a, i: i[0].pipe(ops.skip_last_with_time(a["d"])), {"time"})
R("timeout", 1, lambda c: {"d": pdur(c) * 2, "pool": c.pool(1), "other": c.rng.random() < 0.5},
  lambda w, n, a, i: i[0].pipe(ops.timeout(a["d"], P(w, a)[0] if a["other"] else None)), {"time", "pool", "term"})
R("timeout_with_mapper", 1, lambda c: {"pool": c.pool(3, True), "f": c.fn("inner"), "other": c.rng.random() < 0.5},
  lambda w, n, a, i: i[0].pipe(ops.timeout_with_mapper(P(w, a)[0], F(w, n, a, "f"), P(w, a)[1] if a["other"] else None)), {"cb", "time", "pool", "term"})

# windows / buffers / groups
R("window_with_count", 1, lambda c: {"n": c.rng.randrange(1, 4), "skip": c.rng.choice([None, 1, 2, 3])},
  lambda w, n, a, i: i[0].pipe(ops.window_with_count(a["n"], a["skip"])), {"inner"})
R("buffer_with_count", 1, lambda c: {"n": c.rng.randrange(1, 4), "skip": c.rng.choice([None, 1, 2, 3])},
  lambda w, n, a, i: i[0].pipe(ops.buffer_with_count(a["n"], a["skip"])), ())
R("window_with_time", 1, lambda c: {"d": pdur(c), "shift": c.rng.choice([None, 20, 40, 70])},
  lambda w, n, a, i: i[0].pipe(ops.window_with_time(a["d"], a["shift"])), {"inner", "time"})
R("buffer_with_time", 1, lambda c: {"d": pdur(c), "shift": c.rng.choice([None, 20, 40, 70])},
  lambda w, n, a, i: i[0].pipe(ops.buffer_with_time(a["d"], a["shift"])), {"time"})
R("window_with_time_or_count", 1, lambda c: {"d": pdur(c), "n": c.rng.randrange(1, 4)},
  lambda w, n, a, i: i[0].pipe(ops.window_with_time_or_count(a["d"], a["n"])), {"inner", "time"})
R("buffer_with_time_or_count", 1, lambda c: {"d": pdur(c), "n": c.rng.randrange(1, 4)},
  lambda w, n, a, i: i[0].pipe(ops.buffer_with_time_or_count(a["d"], a["n"])), {"time"})
R("window_when", 1, lambda c: {"pool": c.pool(1, True), "f": c.fn("thunk_inner")},
  lambda w, n, a, i: i[0].pipe(ops.window_when(F(w, n, a, "f"))), {"inner", "cb", "pool"})
R("buffer_when", 1, lambda c: {"pool": c.pool(1, True), "f": c.fn("thunk_inner")},
  lambda w, n, a, i: i[0].pipe(ops.buffer_when(F(w, n, a, "f"))), {"cb", "pool"})
R("group_by", 1, lambda c: {"f": c.fn("key"), "g": c.rng.choice([None, c.fn("map")])},
  lambda w, n, a, i: i[0].pipe(ops.group_by(F(w, n, a, "f"), F(w, n, a, "g"))), {"inner", "cb"})
R("group_by_until", 1, lambda c: {"f": c.fn("key"), "g": c.rng.choice([None, c.fn("map")]), "pool": c.pool(2, True), "dur": c.fn("inner")},
  lambda w, n, a, i: i[0].pipe(ops.group_by_until(F(w, n, a, "f"), F(w, n, a, "g"), F(w, n, a, "dur"))), {"inner", "cb", "pool"})
# a group that expires on its own traffic: the duration observable is derived from the group itself (the usual idiom:
# "close a group after k of its elements / when it falls silent")
R("group_by_until_self", 1, lambda c: {"f": c.fn("key"), "k": c.rng.randrange(0, 3)},
  lambda w, n, a, i: i[0].pipe(ops.group_by_until(F(w, n, a, "f"), None, lambda g: g.pipe(ops.skip(a["k"])))), {"inner", "cb"})
# ... or one that treats a group that ended (also by an error) as expired: the expiry then happens while the operator is still
# telling its groups about that end (materialize: no scheduler in between, the expiry is synchronous)
R("group_by_until_ended", 1, lambda c: {"f": c.fn("key"), "g": c.rng.choice([None, c.fn("map")])},
  lambda w, n, a, i: i[0].pipe(ops.group_by_until(F(w, n, a, "f"), F(w, n, a, "g"), lambda g: g.pipe(ops.materialize(), ops.filter(lambda n: n.kind != "N")))), {"inner", "cb"})
R("group_by_merge", 1, lambda c: {"f": c.fn("key")},
  lambda w, n, a, i: i[0].pipe(ops.group_by(F(w, n, a, "f")), ops.flat_map(lambda g: g.pipe(ops.to_list()))), {"cb"})
R("partition0", 1, lambda c: {"f": c.fn("pred"), "which": c.rng.randrange(2)},
  lambda w, n, a, i: i[0].pipe(ops.partition(F(w, n, a, "f")))[a["which"]], {"cb", "multicast"})
R("partition_indexed0", 1, lambda c: {"f": c.fn("pred_i"), "which": c.rng.randrange(2)},
  lambda w, n, a, i: i[0].pipe(ops.partition_indexed(F(w, n, a, "f")))[a["which"]], {"cb", "multicast"})

# sequential composition with pool sources
R("repeat", 1, lambda c: {"n": c.rng.randrange(0, 4)}, lambda w, n, a, i: i[0].pipe(ops.repeat(a["n"])), ())
R("retry", 1, lambda c: {"n": c.rng.randrange(0, 4)}, lambda w, n, a, i: i[0].pipe(ops.retry(a["n"])), ())
R("catch_handler", 1, lambda c: {"pool": c.pool(2), "f": c.fn("inner")},
  lambda w, n, a, i: i[0].pipe(ops.catch(F(w, n, a, "f"))), {"cb", "pool"})
R("while_do", 1, lambda c: {"f": {"k": "cond", "m": c.rng.randrange(0, 4)}}, lambda w, n, a, i: i[0].pipe(ops.while_do(F(w, n, a, "f"))), {"cb", "stateful"})
R("while_do_time", 1, lambda c: {"f": {"k": "cond_time", "T": c.rng.choice(range(150, 700, 50)), "after": c.rng.random() < 0.5}},
  lambda w, n, a, i: i[0].pipe(ops.start_with("w"), ops.while_do(F(w, n, a, "f")), ops.take(6)), {"cb"})
R("do_while_time", 1, lambda c: {"f": {"k": "cond_time", "T": c.rng.choice(range(150, 700, 50)), "after": c.rng.random() < 0.5}},
  lambda w, n, a, i: i[0].pipe(ops.start_with("w"), ops.do_while(F(w, n, a, "f")), ops.take(6)), {"cb"})
R("do_while", 1, lambda c: {"f": {"k": "cond", "m": c.rng.randrange(0, 3)}}, lambda w, n, a, i: i[0].pipe(ops.do_while(F(w, n, a, "f"))), {"cb", "stateful"})

# merging / switching through a mapper into the pool
R("flat_map", 1, lambda c: {"pool": c.pool(2), "f": c.fn("inner")}, lambda w, n, a, i: i[0].pipe(ops.flat_map(F(w, n, a, "f"))), {"cb", "pool"})
R("flat_map_indexed", 1, lambda c: {"pool": c.pool(2), "f": c.fn("inner_i")}, lambda w, n, a, i: i[0].pipe(ops.flat_map_indexed(F(w, n, a, "f"))), {"cb", "pool"})
R("concat_map", 1, lambda c: {"pool": c.pool(2), "f": c.fn("inner")}, lambda w, n, a, i: i[0].pipe(ops.concat_map(F(w, n, a, "f"))), {"cb", "pool"})
R("flat_map_latest", 1, lambda c: {"pool": c.pool(2), "f": c.fn("inner")}, lambda w, n, a, i: i[0].pipe(ops.flat_map_latest(F(w, n, a, "f"))), {"cb", "pool"})
R("switch_map", 1, lambda c: {"pool": c.pool(2), "f": c.fn("inner")}, lambda w, n, a, i: i[0].pipe(ops.switch_map(F(w, n, a, "f"))), {"cb", "pool"})
R("switch_map_indexed", 1, lambda c: {"pool": c.pool(2), "f": c.fn("inner_i")}, lambda w, n, a, i: i[0].pipe(ops.switch_map_indexed(F(w, n, a, "f"))), {"cb", "pool"})
def _fin(w, n, a, pool):
    fin = F(w, n, a, "fin")
    return [p.pipe(ops.finally_action(fin)) for p in pool]


R("switch_map_finally", 1, lambda c: {"pool": c.pool(2), "f": c.fn("inner"), "fin": c.fn("action")},
  lambda w, n, a, i: i[0].pipe(ops.switch_map(F(w, n, a, "f", _fin(w, n, a, P(w, a))))), {"cb", "pool"})
R("concat_map_finally", 1, lambda c: {"pool": c.pool(2), "f": c.fn("inner"), "fin": c.fn("action")},
  lambda w, n, a, i: i[0].pipe(ops.concat_map(F(w, n, a, "f", _fin(w, n, a, P(w, a))))), {"cb", "pool"})
R("flat_map_finally", 1, lambda c: {"pool": c.pool(2), "f": c.fn("inner"), "fin": c.fn("action")},
  lambda w, n, a, i: i[0].pipe(ops.flat_map(F(w, n, a, "f", _fin(w, n, a, P(w, a))))), {"cb", "pool"})
R("map_merge_all", 1, lambda c: {"pool": c.pool(2), "f": c.fn("inner")}, lambda w, n, a, i: i[0].pipe(ops.map(F(w, n, a, "f")), ops.merge_all()), {"cb", "pool"})
R("map_merge_mc", 1, lambda c: {"pool": c.pool(2), "f": c.fn("inner"), "mc": c.rng.randrange(1, 4)},
  lambda w, n, a, i: i[0].pipe(ops.map(F(w, n, a, "f")), ops.merge(max_concurrent=a["mc"])), {"cb", "pool"})
R("map_switch_latest", 1, lambda c: {"pool": c.pool(2), "f": c.fn("inner")}, lambda w, n, a, i: i[0].pipe(ops.map(F(w, n, a, "f")), ops.switch_latest()), {"cb", "pool"})
R("map_exclusive", 1, lambda c: {"pool": c.pool(2), "f": c.fn("inner")}, lambda w, n, a, i: i[0].pipe(ops.map(F(w, n, a, "f")), ops.exclusive()), {"cb", "pool"})
R("expand_take", 1, lambda c: {"pool": c.pool(2, True, 1), "f": c.fn("inner"), "n": c.rng.randrange(1, 6)},
  lambda w, n, a, i: i[0].pipe(ops.expand(F(w, n, a, "f")), ops.take(a["n"])), {"cb", "pool", "term"})

# multicast forms that yield plain observables
R("share", 1, lambda c: {}, lambda w, n, a, i: i[0].pipe(ops.share()), {"multicast"})
R("publish_ref_count", 1, lambda c: {}, lambda w, n, a, i: i[0].pipe(ops.publish(), ops.ref_count()), {"multicast"})
R("replay_ref_count", 1, lambda c: {"n": c.rng.choice([None, 1, 2])}, lambda w, n, a, i: i[0].pipe(ops.replay(buffer_size=a["n"], scheduler=w.s), ops.ref_count()), {"multicast", "time"})
R("publish_value_ref_count", 1, lambda c: {"v": vt.gen_value(c.rng, 0.5)}, lambda w, n, a, i: i[0].pipe(ops.publish_value(V(a["v"])), ops.ref_count()), {"multicast"})
R("publish_mapper", 1, lambda c: {"f": c.fn("ident")}, lambda w, n, a, i: i[0].pipe(ops.publish(F(w, n, a, "f"))), {"multicast", "cb"})
R("replay_mapper", 1, lambda c: {"f": c.fn("ident"), "n": c.rng.choice([None, 1])},
  lambda w, n, a, i: i[0].pipe(ops.replay(buffer_size=a["n"], mapper=F(w, n, a, "f"), scheduler=w.s)), {"multicast", "cb", "time"})

# connectables (need connect(); used by C24/C44 only)
R("publish", 1, lambda c: {}, lambda w, n, a, i: i[0].pipe(ops.publish()), {"multicast", "connectable"})
R("replay", 1, lambda c: {"n": c.rng.choice([None, 1, 2]), "win": c.rng.choice([None, None, 50])},
  lambda w, n, a, i: i[0].pipe(ops.replay(buffer_size=a["n"], window=a["win"], scheduler=w.s)), {"multicast", "connectable", "time"})
R("publish_value", 1, lambda c: {"v": vt.gen_value(c.rng, 0.5)}, lambda w, n, a, i: i[0].pipe(ops.publish_value(V(a["v"]))), {"multicast", "connectable"})
R("multicast_factory_mapper", 1, lambda c: {"f": c.fn("ident")},
  lambda w, n, a, i: i[0].pipe(ops.multicast(subject_factory=lambda s: rx.subject.Subject(), mapper=F(w, n, a, "f"))), {"multicast", "cb"})
R("publish_value_mapper", 1, lambda c: {"v": vt.gen_value(c.rng, 0.5), "f": c.fn("ident")},
  lambda w, n, a, i: i[0].pipe(ops.publish_value(V(a["v"]), F(w, n, a, "f"))), {"multicast", "cb"})

R("multicast_subject_ref_count", 1, lambda c: {}, lambda w, n, a, i: i[0].pipe(ops.multicast(rx.subject.Subject()), ops.ref_count()), {"multicast", "explicit_subject"})
R("to_marbles", 1, lambda c: {"d": c.rng.choice([10, 20, 50])}, lambda w, n, a, i: i[0].pipe(ops.map(lambda x: vt.h(x) % 10), ops.to_marbles(a["d"], w.s)), {"time"})

# library source factories spliced into the pipeline (fromiterable.py, range.py, generate.py, timer.py, interval.py ...)
R("concat_lib_range", 1, lambda c: {"n": c.rng.randrange(0, 5)}, lambda w, n, a, i: rx.concat(i[0], rx.range(0, a["n"])), ())
R("concat_lib_from_iterable", 1, lambda c: {"v": [vt.gen_value(c.rng, 0.5) for _ in range(c.rng.randrange(0, 4))]},
  lambda w, n, a, i: rx.concat(rx.from_iterable([V(x) for x in a["v"]]), i[0]), ())
R("merge_lib_interval", 1, lambda c: {"d": pdur(c), "n": c.rng.randrange(1, 5)}, lambda w, n, a, i: rx.merge(i[0], rx.interval(float(a["d"])).pipe(ops.take(a["n"]))), {"time"})
R("merge_lib_timer", 1, lambda c: {"d": dur(c)}, lambda w, n, a, i: rx.merge(i[0], rx.timer(float(a["d"]))), {"time"})
R("concat_lib_generate", 1, lambda c: {"n": c.rng.randrange(0, 5)}, lambda w, n, a, i: rx.concat(i[0], rx.generate(0, lambda s: s < a["n"], lambda s: s + 1)), ())
R("concat_lib_repeat_value", 1, lambda c: {"n": c.rng.randrange(0, 4), "v": vt.gen_value(c.rng, 0.5)}, lambda w, n, a, i: rx.concat(rx.repeat_value(V(a["v"]), a["n"]), i[0]), ())
R("zip_lib_range", 1, lambda c: {"n": c.rng.randrange(0, 5)}, lambda w, n, a, i: rx.zip(i[0], rx.range(0, a["n"])), ())
R("concat_lib_generate_rel", 1, lambda c: {"n": c.rng.randrange(0, 4), "d": dur(c)},
  lambda w, n, a, i: rx.concat(i[0], rx.generate_with_relative_time(0, lambda s: s < a["n"], lambda s: s + 1, lambda s: float(a["d"]))), {"time"})

# scheduler hopping / resources
R("observe_on", 1, lambda c: {}, lambda w, n, a, i: i[0].pipe(ops.observe_on(w.s)), {"time"})
R("subscribe_on", 1, lambda c: {}, lambda w, n, a, i: i[0].pipe(ops.subscribe_on(w.s)), {"time"})
R("finally_action", 1, lambda c: {"f": c.fn("action")}, lambda w, n, a, i: i[0].pipe(ops.finally_action(F(w, n, a, "f"))), ())
R("do_finally", 1, lambda c: {"f": c.fn("action")}, lambda w, n, a, i: _do_finally(w, n, a, i), ())


def _do_finally(w, n, a, i):
    from reactivex.operators import _do
    return _do.do_finally(F(w, n, a, "f"))(i[0])


# ------------------------------------------------------------------ n-ary rows (arity 2..3)
def _others(i):
    return i[1:]


R("merge", -1, lambda c: {}, lambda w, n, a, i: i[0].pipe(ops.merge(*_others(i))), ())
R("rx.merge", -1, lambda c: {}, lambda w, n, a, i: rx.merge(*i), ())
R("concat", -1, lambda c: {}, lambda w, n, a, i: i[0].pipe(ops.concat(*_others(i))), ())
R("rx.concat", -1, lambda c: {}, lambda w, n, a, i: rx.concat(*i), ())
R("rx.concat_with_iterable", -1, lambda c: {}, lambda w, n, a, i: rx.concat_with_iterable(list(i)), ())
R("zip", -1, lambda c: {}, lambda w, n, a, i: i[0].pipe(ops.zip(*_others(i))), ())
R("rx.zip", -1, lambda c: {}, lambda w, n, a, i: rx.zip(*i), ())
R("combine_latest", -1, lambda c: {}, lambda w, n, a, i: i[0].pipe(ops.combine_latest(*_others(i))), ())
R("rx.combine_latest", -1, lambda c: {}, lambda w, n, a, i: rx.combine_latest(*i), ())
R("with_latest_from", -1, lambda c: {}, lambda w, n, a, i: i[0].pipe(ops.with_latest_from(*_others(i))), ())
R("rx.with_latest_from", -1, lambda c: {}, lambda w, n, a, i: rx.with_latest_from(*i), ())
R("fork_join", -1, lambda c: {}, lambda w, n, a, i: i[0].pipe(ops.fork_join(*_others(i))), ())
R("rx.fork_join", -1, lambda c: {}, lambda w, n, a, i: rx.fork_join(*i), ())
R("amb", 2, lambda c: {}, lambda w, n, a, i: i[0].pipe(ops.amb(i[1])), {"term"})
R("rx.amb", -1, lambda c: {}, lambda w, n, a, i: rx.amb(*i), {"term"})
R("catch", 2, lambda c: {}, lambda w, n, a, i: i[0].pipe(ops.catch(i[1])), ())
R("rx.catch", -1, lambda c: {}, lambda w, n, a, i: rx.catch(*i), ())
R("rx.catch_with_iterable", -1, lambda c: {}, lambda w, n, a, i: rx.catch_with_iterable(list(i)), ())
R("on_error_resume_next", 2, lambda c: {}, lambda w, n, a, i: i[0].pipe(ops.on_error_resume_next(i[1])), ())
R("rx.on_error_resume_next", -1, lambda c: {}, lambda w, n, a, i: rx.on_error_resume_next(*i), ())
R("take_until", 2, lambda c: {}, lambda w, n, a, i: i[0].pipe(ops.take_until(i[1])), {"term"})
R("skip_until", 2, lambda c: {}, lambda w, n, a, i: i[0].pipe(ops.skip_until(i[1])), ())
R("sequence_equal", 2, lambda c: {"cmp": c.rng.choice([None, c.fn("cmp")])}, lambda w, n, a, i: i[0].pipe(ops.sequence_equal(i[1], F(w, n, a, "cmp"))), {"cb", "term"})
R("zip_with_iterable", 1, lambda c: {"v": [vt.gen_value(c.rng, 0.5) for _ in range(c.rng.randrange(0, 4))]},
  lambda w, n, a, i: i[0].pipe(ops.zip_with_iterable([V(x) for x in a["v"]])), ())
R("zip_with_list", 1, lambda c: {"v": [vt.gen_value(c.rng, 0.5) for _ in range(c.rng.randrange(0, 4))]},
  lambda w, n, a, i: i[0].pipe(ops.zip_with_list([V(x) for x in a["v"]])), ())
R("sample", 2, lambda c: {}, lambda w, n, a, i: i[0].pipe(ops.sample(i[1])), ())
R("window", 2, lambda c: {}, lambda w, n, a, i: i[0].pipe(ops.window(i[1])), {"inner"})
R("buffer", 2, lambda c: {}, lambda w, n, a, i: i[0].pipe(ops.buffer(i[1])), ())
R("window_toggle", 2, lambda c: {"pool": c.pool(2, True), "f": c.fn("inner")},
  lambda w, n, a, i: i[0].pipe(ops.window_toggle(i[1], F(w, n, a, "f"))), {"inner", "cb", "pool"})
R("buffer_toggle", 2, lambda c: {"pool": c.pool(2, True), "f": c.fn("inner")},
  lambda w, n, a, i: i[0].pipe(ops.buffer_toggle(i[1], F(w, n, a, "f"))), {"cb", "pool"})
R("join", 2, lambda c: {"pool": c.pool(2, True), "f": c.fn("inner"), "g": c.fn(c.rng.choice(["inner", "inner_alt"]))},
  lambda w, n, a, i: i[0].pipe(ops.join(i[1], F(w, n, a, "f"), F(w, n, a, "g"))), {"cb", "pool"})
R("group_join", 2, lambda c: {"pool": c.pool(2, True), "f": c.fn("inner"), "g": c.fn(c.rng.choice(["inner", "inner_alt"]))},
  lambda w, n, a, i: i[0].pipe(ops.group_join(i[1], F(w, n, a, "f"), F(w, n, a, "g"))), {"inner", "cb", "pool"})
R("rx.for_in", 1, lambda c: {"pool": c.pool(2), "f": c.fn("inner"), "v": [vt.gen_value(c.rng) for _ in range(c.rng.randrange(0, 4))]},
  lambda w, n, a, i: rx.concat(i[0], rx.for_in([V(x) for x in a["v"]], F(w, n, a, "f"))), {"cb", "pool"})
R("rx.defer", 1, lambda c: {"f": c.fn("action")}, lambda w, n, a, i: rx.defer(lambda s: (F(w, n, a, "f")(), i[0])[1]), {"cb"})
R("rx.if_then", 2, lambda c: {"f": c.fn("pred")}, lambda w, n, a, i: rx.if_then(lambda: F(w, n, a, "f")(0), i[0], i[1]), {"cb"})
R("rx.case", 2, lambda c: {"f": c.fn("key")}, lambda w, n, a, i: rx.case(lambda: F(w, n, a, "f")(0), {0: i[0], 1: i[1]}), {"cb"})
R("rx.using", 1, lambda c: {"f": c.fn("action")},
  lambda w, n, a, i: rx.using(lambda: (F(w, n, a, "f")(), rx.disposable.Disposable())[1], lambda r: i[0]), {"cb"})


# ------------------------------------------------------------------ program generation / build

def gen_program(ctx, depth, allow=None, max_sources=4, nary_p=0.3):
    """Random pipeline of `depth` operator nodes over freshly generated sources."""
    rng = ctx.rng
    names = [n for n, r in sorted(ROWS.items()) if "connectable" not in r.tags and (allow is None or allow(r))]
    unary = [n for n in names if ROWS[n].arity == 1]
    nary = [n for n in names if ROWS[n].arity != 1]
    node = ctx.new_source()
    nsrc = 1
    for _ in range(depth):
        if nary and nsrc < max_sources and rng.random() < nary_p:
            name = rng.choice(nary)
            r = ROWS[name]
            k = 2 if r.arity == 2 else rng.choice([2, 2, 3])
            k = min(k, max_sources - nsrc + 1)
            k = max(k, 2)
            others = [ctx.new_source() for _ in range(k - 1)]
            nsrc += k - 1
            pos = rng.randrange(k)
            ins = others[:pos] + [node] + others[pos:]
        else:
            name = rng.choice(unary)
            r = ROWS[name]
            ins = [node]
        nid = ctx.next_id()
        node = {"op": name, "id": nid, "a": r.gen(ctx), "in": ins}
    return node


def build(w, node, taps=None):
    """taps: optional {node id: list}; the output of that node is wrapped in a pass-through
    probe observable that logs (seq, t, kind, value, subscription index) of what flows out of it."""
    if isinstance(node, str):
        return w.sources[node]
    r = ROWS[node["op"]]
    ins = [build(w, x, taps) for x in node["in"]]
    obs = r.build(w, node["id"], node["a"], ins)
    if taps is not None and node["id"] in taps:
        obs = vt.Tap(w, obs, taps[node["id"]])
    return obs


def ops_of(node, acc=None):
    acc = [] if acc is None else acc
    if isinstance(node, dict):
        acc.append(node["op"])
        for x in node["in"]:
            ops_of(x, acc)
    return acc


def sources_of(node, acc=None):
    acc = [] if acc is None else acc
    if isinstance(node, str):
        acc.append(node)
    else:
        for x in node["in"]:
            sources_of(x, acc)
        acc.extend(node["a"].get("pool", []) if isinstance(node.get("a"), dict) else [])
    return acc


def prune_sources(sc):
    """Keep only the source specs the program still references (used by the shrinker)."""
    used = set(sources_of(sc["program"]))
    sc["sources"] = [s for s in sc["sources"] if s["id"] in used]
    return sc


def sites_of(node, acc=None):
    """Callback sites '<node id>.<arg>' of a program."""
    acc = [] if acc is None else acc
    if isinstance(node, dict):
        for k, v in sorted(node.get("a", {}).items()):
            if isinstance(v, dict) and "k" in v:
                acc.append("%s.%s" % (node["id"], k))
        for x in node["in"]:
            sites_of(x, acc)
    return acc


R("rx.on_error_resume_next_factory", 2, lambda c: {"f": c.fn("action")},
  lambda w, n, a, i: rx.on_error_resume_next(i[0], lambda e: (F(w, n, a, "f")(), i[1])[1]), {"cb"})

# operators that do not pass an upstream on_error through unchanged (used by C09 to pick fault sites);
# amb drops whatever its losing input does, errors included
ERROR_OPAQUE = {"amb", "rx.amb", "catch", "rx.catch", "rx.catch_with_iterable", "catch_handler", "retry", "on_error_resume_next",
                "rx.on_error_resume_next", "rx.on_error_resume_next_factory", "materialize", "dematerialize"}
