"""VT engine: single-thread discrete-event simulation on the repository's own
virtual-time schedulers, with logged sim sources, recorders, instrumented
callbacks, fault plans and dispose points.  See DESIGN.md section 3.1."""
from __future__ import annotations

import collections
import zlib
from datetime import datetime, timedelta, timezone

from simlib import core  # noqa: F401  (puts the repo on sys.path)

import reactivex as rx
from reactivex import Observable
from reactivex.disposable import Disposable
from reactivex.scheduler import HistoricalScheduler, VirtualTimeScheduler
from reactivex.testing import TestScheduler

UTC0 = datetime.fromtimestamp(0, tz=timezone.utc)


class InjectedFault(Exception):
    """The only exception type the fault plan raises from user callbacks."""

    def __init__(self, site="?"):
        super().__init__("injected@" + str(site))
        self.site = site


class InjectedStop(InjectedFault, StopIteration):
    pass


class InjectedKey(InjectedFault, KeyError):
    pass


class InjectedValue(InjectedFault, ValueError):
    pass


class InjectedType(InjectedFault, TypeError):
    pass


class InjectedAttr(InjectedFault, AttributeError):
    pass


class InjectedIndex(InjectedFault, IndexError):
    pass


class InjectedRuntime(InjectedFault, RuntimeError):
    pass


# what a raising user callback raises: the library has to treat every Exception alike (a narrow except clause around a user
# function - StopIteration around next(), KeyError around a lookup - must not mistake the user's exception for its own)
FAULT_CLASSES = {None: InjectedFault, "stop_iteration": InjectedStop, "key_error": InjectedKey, "value_error": InjectedValue,
                 "type_error": InjectedType, "attribute_error": InjectedAttr, "index_error": InjectedIndex, "runtime_error": InjectedRuntime}


class SourceError(Exception):
    """Error notification carried by a sim source timeline."""

    def __init__(self, tag):
        super().__init__("src-" + str(tag))
        self.tag = tag

    def __eq__(self, o):
        return isinstance(o, SourceError) and o.tag == self.tag

    def __hash__(self):
        return hash(("SourceError", self.tag))


class Budget(BaseException):
    """Work budget exhausted (escapes every `except Exception` in the library)."""


SPIN_BUDGET = 5000  # library-scheduled actions within one virtual instant (generated scenarios stay below a few hundred)


# ------------------------------------------------------------------ values
# JSON encoding of the value domain (tuples and nested containers need tags).

def dec(v):
    if isinstance(v, dict):
        if "t" in v:
            return tuple(dec(x) for x in v["t"])
        if "l" in v:
            return [dec(x) for x in v["l"]]
        if "d" in v:
            return {}
        if "f" in v:
            return float(v["f"])
        if "err" in v:
            return SourceError(v["err"])
        raise ValueError(v)
    return v


FALSY = [None, 0, {"f": 0.0}, False, "", {"t": []}, {"l": []}, {"d": 1}]
ORDINARY = [1, 2, 3, 4, 5, "a", "b", {"t": [1, 2]}, 7, -1]


def gen_value(rng, falsy_p=0.3):
    if rng.random() < falsy_p:
        return rng.choice(FALSY)
    return rng.choice(ORDINARY)


def h(x):
    """Total deterministic hash used by every generated predicate/key/mapper."""
    if isinstance(x, Observable):
        return 0
    try:
        return zlib.crc32(repr(vkey(x)).encode())
    except Exception:
        return 1


def vkey(x):
    """Comparable description of a runtime value distinguishing 0, 0.0, False, None."""
    if isinstance(x, (tuple, list)):
        return (type(x).__name__, tuple(vkey(y) for y in x))
    if isinstance(x, dict):
        return ("dict", tuple(sorted((repr(k), vkey(v)) for k, v in x.items())))
    if isinstance(x, set):
        return ("set", tuple(sorted(repr(vkey(y)) for y in x)))
    if isinstance(x, Observable):
        return ("observable",)
    if isinstance(x, SourceError):
        return ("src", x.tag)
    if isinstance(x, BaseException):
        return ("exc", type(x).__name__)
    if isinstance(x, type) and issubclass(x, BaseException):
        return ("exc", x.__name__)
    if isinstance(x, datetime):
        return ("dt", (x - UTC0).total_seconds())
    if isinstance(x, timedelta):
        return ("td", x.total_seconds())
    if isinstance(getattr(x, "kind", None), str) and (hasattr(x, "value") or hasattr(x, "exception") or x.kind == "C"):
        # Notification: never compare through Notification.__eq__ (string based)
        k = x.kind
        if k == "N":
            return ("OnNext", vkey(getattr(x, "value", None)))
        if k == "E":
            return ("OnError", vkey(getattr(x, "exception", None)))
        return ("OnCompleted",)
    if type(x).__name__ in ("Timestamp", "TimeInterval"):
        return (type(x).__name__, vkey(x.value), vkey(getattr(x, "timestamp", None) or getattr(x, "interval", None)))
    r = repr(x)
    if " at 0x" in r:
        return (type(x).__name__,)
    return (type(x).__name__, r)


# ------------------------------------------------------------------ world

def _counting(base):
    """Subclass of a repo scheduler that logs every invoked action (through the public
    schedule_absolute seam only); harness actions are tagged so that library-internal
    timers can be told apart."""

    class Counting(base):
        __test__ = False

        def __init__(self, *a):
            super().__init__(*a)
            self.lib_actions = []  # virtual time of every invoked library-scheduled action
            self.world = None

        def schedule_absolute(self, duetime, action, state=None):
            if getattr(action, "_harness", False):
                return super().schedule_absolute(duetime, action, state)
            w = self.world

            def counted(sc, st=None):
                if w is not None:
                    t = w.now()
                    if t == getattr(self, "_spin_t", None):
                        self._spin_n += 1
                        if self._spin_n > SPIN_BUDGET:
                            raise Budget()  # a pipeline re-scheduling itself for ever within one virtual instant (advance_to has no anti-spin)
                    else:
                        self._spin_t, self._spin_n = t, 0
                    self.lib_actions.append(t)
                return action(sc, st)

            return super().schedule_absolute(duetime, counted, state)

    return Counting


CountingTest = _counting(TestScheduler)
CountingVTS = _counting(VirtualTimeScheduler)
CountingHistorical = _counting(HistoricalScheduler)


class World:
    def __init__(self, clock="test"):
        self.clock_kind = clock
        if clock == "test":
            self.s = CountingTest()
        elif clock == "vts":
            self.s = CountingVTS(0.0)
        elif clock == "historical":
            self.s = CountingHistorical()
        else:
            raise ValueError(clock)
        self.s.world = self
        self.seq = 0
        self.sources = {}
        self.calls = []  # (seq, t, site)
        self.counts = collections.Counter()
        self.faults = {}  # site -> set(k)
        self.fired = []  # (seq, site, k)
        self.fault_cls = InjectedFault
        self.escaped = []  # (seq, t, where, exc)
        self.pending_early = []
        self.pending_hot = []
        self.pending_late = []
        self.armed = False
        self.after_call = None  # hook (site, k) -> None  (re-entrant dispose from inside a callback)

    # -- clock helpers
    def tick(self):
        self.seq += 1
        return self.seq

    def now(self):
        c = self.s.clock
        if isinstance(c, datetime):
            return (c - UTC0).total_seconds()
        return float(c)

    def abs(self, t):
        if self.clock_kind == "historical":
            return UTC0 + timedelta(seconds=t)
        return float(t)

    # -- scheduling of harness actions
    def at(self, t, fn, tie="early"):
        """Run fn() at virtual time t.  tie: early = queued before every other action of
        tick t; hot = in source order; late = armed at t-0.5, so it lands after the actions
        already queued for t but before the ones those actions enqueue."""
        if tie == "late":
            self.pending_late.append((t, fn))
        elif tie == "hot":
            self.pending_hot.append((t, fn))
        else:
            self.pending_early.append((t, fn))
        if self.armed:
            self._arm()

    def _sched(self, t, fn):
        def action(sc, st=None):
            fn()
            return Disposable()

        action._harness = True
        return self.s.schedule_absolute(self.abs(t), action)

    def _arm(self):
        self.armed = True
        for t, fn in self.pending_early:
            self._sched(t, fn)
        self.pending_early = []
        for t, fn in self.pending_hot:
            self._sched(t, fn)
        self.pending_hot = []
        for t, fn in self.pending_late:
            self._sched(max(0.0, t - 0.5), (lambda t=t, fn=fn: self._sched(t, fn)))
        self.pending_late = []

    def run(self, horizon):
        """Advance to `horizon`, resuming after exceptions that escape the scheduler."""
        self._arm()
        target = self.abs(horizon)
        for _ in range(200):
            try:
                self.s.advance_to(target)
                break
            except Budget:
                raise
            except Exception as e:  # escaped out of the scheduler loop
                self.escaped.append((self.tick(), self.now(), "scheduler", e))
                self.s.stop()
                if self.now() >= horizon:
                    break
        return self

    # -- instrumented callbacks
    def set_faults(self, faults):
        self.faults = {}
        for f in faults or []:
            self.faults.setdefault(f["site"], set()).add(f["k"])

    def enter(self, site):
        """Called at the start of every instrumented user callback."""
        k = self.counts[site]
        self.counts[site] = k + 1
        self.calls.append((self.tick(), self.now(), site))
        if self.after_call is not None:
            self.after_call(site, k)
        ks = self.faults.get(site)
        if ks and k in ks:
            self.fired.append((self.seq, site, k))
            raise self.fault_cls(site)
        return k

    def fn(self, kind, site, m=2, r=0, pool=None, spec=None):
        """Return an instrumented total function of the given kind."""
        enter = self.enter
        if kind == "cond":  # stateful: true for the first m invocations
            return lambda *a: enter(site) < m
        if kind == "cond_time":  # deterministic function of the virtual clock only
            T, after = spec["T"], spec.get("after", False)
            return lambda *a: (enter(site), (self.now() >= T) == after)[1]
        f = pure(kind, m, r, pool)

        def g(*a):
            enter(site)
            return f(*a)

        return g


def pure(kind, m=2, r=0, pool=None):
    """The uninstrumented callback library (shared by the reference models)."""
    if kind == "pred":
        return lambda x, *a: h(x) % m == r
    if kind == "pred_i":
        return lambda x, i: (h(x) + i) % m == r
    if kind == "key":
        return lambda x: h(x) % m
    if kind == "map":
        return lambda x: ("m", x)
    if kind == "map_i":
        return lambda x, i: ("m", x, i)
    if kind == "star":
        return lambda *a: ("s",) + tuple(a)
    if kind == "ident":
        return lambda x: x
    if kind == "cmp":
        return lambda a, b: h(a) % m == h(b) % m
    if kind == "cmp_le":  # not symmetric: (element, given value) / (element of the first, element of the second) are different roles
        return lambda a, b: h(a) % 3 <= h(b) % 3
    if kind == "acc":
        if r % 2:  # the running state itself becomes falsy whenever a falsy element arrives (and the next step depends on it)
            return lambda a, x: ("a", a, x) if x else x
        return lambda a, x: ("a", a, x)
    if kind == "num":
        return lambda x: h(x) % 7
    if kind == "inner":
        return lambda x, *a: pool[h(x) % len(pool)]
    if kind == "inner_alt":  # a second selector over the same pool that disagrees with "inner" (left / right durations of join differ)
        return lambda x, *a: pool[(h(x) + 1) % len(pool)]
    if kind == "inner_i":
        return lambda x, i: pool[(h(x) + i) % len(pool)]
    if kind == "thunk_inner":
        return lambda *a: pool[0]
    if kind == "action":
        return lambda *a: None
    raise ValueError(kind)


# ------------------------------------------------------------------ sources

class SubRec:
    __slots__ = ("sub_seq", "sub_t", "disp_seq", "disp_t", "observer", "term_seq", "sched")

    def __init__(self, seq, t, observer):
        self.sub_seq = seq
        self.sub_t = t
        self.disp_seq = None
        self.disp_t = None
        self.observer = observer
        self.term_seq = None  # when the source delivered its terminal notification to this observer
        self.sched = None  # the scheduler this subscription was given (sources without a scheduler of their own take their timing from it)

    def open(self):
        return self.disp_seq is None

    def as_tuple(self):
        return (self.sub_seq, self.sub_t, self.disp_seq, self.disp_t)


class SimSource(Observable):
    """Logged source.  kind: cold (events relative to subscription), hot (absolute,
    broadcast to current observers), sync (everything inside subscribe()).
    rogue: ignores its own disposal and keeps calling the observer it was given.
    on_dispose: "N" / "C" / "E" - calls the observer synchronously from inside the disposal of its subscription (the way a
    cancelled future reports CancelledError, or a teardown callback feeds a subject)."""

    def __init__(self, w, sid, kind, events, rogue=False, on_dispose=None):
        super().__init__()
        self.w = w
        self.sid = sid
        self.kind = kind
        self.events = [(e[0], e[1], dec(e[2]) if len(e) > 2 else None) for e in events]
        self.rogue = rogue
        self.on_dispose = on_dispose
        self.subs = []
        self.live = []  # SubRec of live hot observers
        w.sources[sid] = self
        if kind == "hot":
            for t, k, v in self.events:
                w.at(t, (lambda k=k, v=v: self._broadcast(k, v)), tie="hot")

    def _emit(self, obs, k, v, rec=None):
        w = self.w
        if rec is not None and k in "CE" and rec.term_seq is None:
            rec.term_seq = w.tick()
        try:
            if k == "N":
                obs.on_next(v)
            elif k == "C":
                obs.on_completed()
            else:
                obs.on_error(v if isinstance(v, Exception) else SourceError(v))
        except Budget:
            raise
        except Exception as e:
            w.escaped.append((w.tick(), w.now(), "emitter:" + self.sid, e))

    def _broadcast(self, k, v):
        for rec in list(self.live):
            if rec.open() or self.rogue:
                self._emit(rec.observer, k, v, rec)

    def _subscribe_core(self, observer, scheduler=None):
        w = self.w
        rec = SubRec(w.tick(), w.now(), observer)
        rec.sched = scheduler
        self.subs.append(rec)

        def closed():
            if rec.disp_seq is None:
                rec.disp_seq = w.tick()
                rec.disp_t = w.now()
                if self.on_dispose:
                    w.fired.append((w.tick(), "source:%s:emits_on_dispose" % self.sid, self.on_dispose))
                    self._emit(observer, self.on_dispose, "late" if self.on_dispose != "E" else "late-error")

        if self.kind == "hot":
            self.live.append(rec)

            def dispose_hot():
                closed()
                if not self.rogue and rec in self.live:
                    self.live.remove(rec)

            return Disposable(dispose_hot)
        if self.kind == "sync":
            for t, k, v in self.events:
                if rec.open() or self.rogue:
                    self._emit(observer, k, v, rec)
            return Disposable(closed)
        ds = []
        sync_part = []
        events = self.events
        if self.kind == "syncthen" and events:
            # like a BehaviorSubject: the first event is delivered synchronously inside subscribe(), WITHOUT the emitter
            # catching what the observer raises (it propagates out of _subscribe_core); the rest is scheduled like a cold source
            sync_part, events = events[:1], events[1:]
        for t, k, v in events:
            def fire(k=k, v=v):
                if rec.open() or self.rogue:
                    self._emit(observer, k, v, rec)

            ds.append(w._sched(w.now() + t, fire))

        def dispose_cold():
            closed()
            if not self.rogue:
                for d in ds:
                    d.dispose()

        for t, k, v in sync_part:
            if k in "CE" and rec.term_seq is None:
                rec.term_seq = w.tick()
            if k == "N":
                observer.on_next(v)
            elif k == "C":
                observer.on_completed()
            else:
                observer.on_error(v if isinstance(v, Exception) else SourceError(v))
        return Disposable(dispose_cold)


SUBSCRIBE_DEPTH = [0]


class counting_subscribes:
    """Context manager (harness-side, nothing in /repo): counts Observable.subscribe calls in progress."""

    def __enter__(self):
        orig = self.orig = Observable.subscribe
        SUBSCRIBE_DEPTH[0] = 0

        def subscribe(self_, *a, **kw):
            SUBSCRIBE_DEPTH[0] += 1
            try:
                return orig(self_, *a, **kw)
            finally:
                SUBSCRIBE_DEPTH[0] -= 1

        Observable.subscribe = subscribe
        return self

    def __exit__(self, *exc):
        Observable.subscribe = self.orig
        SUBSCRIBE_DEPTH[0] = 0


class Tap(Observable):
    """Pass-through probe inserted between two operators by the harness."""

    def __init__(self, w, inner, log):
        super().__init__()
        self.w, self.inner, self.log, self.n = w, inner, log, 0

    def _subscribe_core(self, observer, scheduler=None):
        w, log = self.w, self.log
        idx = self.n
        self.n += 1
        log.append((w.tick(), w.now(), "S", None, idx))

        def on_next(v):
            log.append((w.tick(), w.now(), "N", v, idx))
            observer.on_next(v)

        def on_error(e):
            log.append((w.tick(), w.now(), "E", e, idx))
            observer.on_error(e)

        def on_completed():
            log.append((w.tick(), w.now(), "C", None, idx))
            observer.on_completed()

        sub = self.inner.subscribe(on_next, on_error, on_completed, scheduler=scheduler)

        def dispose():
            log.append((w.tick(), w.now(), "D", None, idx))
            sub.dispose()

        return Disposable(dispose)


def make_sources(w, specs):
    return {s["id"]: SimSource(w, s["id"], s["kind"], s["events"], s.get("rogue", False), s.get("on_dispose")) for s in specs}


# ------------------------------------------------------------------ recorder

class Recorder:
    """Subscriber that logs (seq, t, kind, value), follows inner observables with
    child recorders, and performs scripted reactions."""

    def __init__(self, w, name="r", follow=True, dispose_at=None, raise_at=None, depth=0):
        self.w = w
        self.name = name
        self.events = []
        self.children = []
        self.follow = follow
        self.dispose_at = dispose_at  # k: dispose own subscription inside the k-th notification
        self.raise_at = raise_at  # k: raise InjectedFault from the k-th notification
        self.sub = None
        self.disp_call_seq = None
        self.disp_ret_seq = None
        self.disp_t = None
        self.depth = depth
        self.sub_seq = None
        self.sub_t = None
        self.k = 0
        self.after = []  # events recorded after dispose returned / after terminal (filled by checks)
        self.script = None  # (k, fn): call fn() from inside the k-th notification
        self.raise_on_terminal = False  # the subscriber's own on_error / on_completed callback raises
        self.on_each = None  # fn(value): called from inside every on_next (after it was recorded)

    # subscription management
    def subscribe(self, obs, **kw):
        w = self.w
        self.sub_seq = w.tick()
        self.sub_t = w.now()
        if getattr(w, "as_observer", False) and not kw:
            self.sub = obs.subscribe(self, scheduler=w.s)  # handed over as an observer object instead of three callbacks
        else:
            self.sub = obs.subscribe(self.on_next, self.on_error, self.on_completed, scheduler=w.s, **kw)
        if self._dispose_pending:
            self.dispose()
        return self

    _dispose_pending = False

    dispose_children = False

    def dispose(self):
        w = self.w
        if self.dispose_children:
            for c in list(self.all_recorders())[1:]:
                if c.disp_ret_seq is None and c.terminal() is None and c.sub is not None:
                    c.dispose()
        if self.sub is None:
            self._dispose_pending = True  # asked from inside a notification delivered during subscribe()
            return
        if self.disp_call_seq is None:
            self.disp_call_seq = w.tick()
            self.disp_t = w.now()
        self.sub.dispose()
        if self.disp_ret_seq is None:
            self.disp_ret_seq = w.tick()

    def _react(self):
        k = self.k
        self.k += 1
        if self.dispose_at is not None and k == self.dispose_at:
            self.dispose()
        if self.script is not None and k == self.script[0]:
            self.script[1]()
        if self.raise_at is not None and k == self.raise_at:
            self.w.fired.append((self.w.seq, "subscriber:" + self.name, k))
            raise self.w.fault_cls("subscriber:" + self.name)

    def on_next(self, v):
        w = self.w
        self.events.append((w.tick(), w.now(), "N", v))
        if self.follow and isinstance(v, Observable) and self.depth < 3:
            child = Recorder(w, "%s.%d" % (self.name, len(self.children)), True, depth=self.depth + 1)
            self.children.append(child)
            child.subscribe(v)
        if self.on_each is not None:
            self.on_each(v)
        self._react()

    drop_children_on_terminal = False

    def _drop_children(self):
        if self.drop_children_on_terminal:
            for c in list(self.all_recorders())[1:]:
                if c.disp_ret_seq is None and c.terminal() is None and c.sub is not None:
                    c.dispose()

    feed_on_terminal = None  # id of a hot source the subscriber pushes a value into from inside its own terminal handler

    def _terminal_feed(self):
        if self.feed_on_terminal is not None and not getattr(self, "_fed", False):
            self._fed = True
            self.w.fired.append((self.w.tick(), "subscriber:%s:feeds_back_from_terminal_handler" % self.name, 0))
            self.w.sources[self.feed_on_terminal]._broadcast("N", ("after-terminal",))

    def _terminal_raise(self):
        # only while no subscribe() call is in progress anywhere on the stack: a callback that raises while a pipeline (or a
        # part re-subscribed later by repeat / concat / while_do) is being assembled aborts the assembly half-way, and what was
        # subscribed by then has no owner - a double fault no statement covers
        if self.raise_on_terminal == "always" or (self.raise_on_terminal and self.sub is not None and SUBSCRIBE_DEPTH[0] == 0):
            self.w.fired.append((self.w.seq, "subscriber:" + self.name + ":terminal", 0))
            raise self.w.fault_cls("subscriber:" + self.name + ":terminal")

    def on_error(self, e):
        w = self.w
        self.events.append((w.tick(), w.now(), "E", e))
        self._drop_children()
        self._react()
        self._terminal_feed()
        self._terminal_raise()

    def on_completed(self):
        w = self.w
        self.events.append((w.tick(), w.now(), "C", None))
        self._drop_children()
        self._react()
        self._terminal_feed()
        self._terminal_raise()

    # views
    def events_kv(self):
        return [(t, k, v) for _, t, k, v in self.events]

    def kinds(self):
        return "".join(e[2] for e in self.events)

    def terminal(self):
        for e in self.events:
            if e[2] in "EC":
                return e
        return None

    def timed(self, rel=0.0):
        """[(t - rel, kind, vkey(value))] with inner observables replaced by their recorders' logs."""
        out = []
        ci = 0
        for seq, t, k, v in self.events:
            if k == "N" and isinstance(v, Observable) and self.follow and self.depth < 3 and ci < len(self.children):
                out.append((t - rel, "N", ("inner", tuple(self.children[ci].timed(rel)))))
                ci += 1
            elif k == "E":
                out.append((t - rel, "E", vkey(v)))
            else:
                out.append((t - rel, k, vkey(v) if k == "N" else None))
        return out

    def all_recorders(self):
        yield self
        for c in self.children:
            yield from c.all_recorders()


def grammar_violation(rec):
    """on_next* (on_error | on_completed)? and nothing afterwards."""
    ks = rec.kinds()
    for i, k in enumerate(ks):
        if k in "EC" and i != len(ks) - 1:
            return "%s received %r (call %d after the terminal one)" % (rec.name, ks, len(ks) - 1 - i)
    return None
