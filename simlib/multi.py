"""Shared harness for the multi-source reference-model checks (C10-C13)."""
from __future__ import annotations

from simlib import evmodel, models, vt
from simlib.core import Outcome


def sub_times(sc):
    """subscription instants of a scenario: the same observable object is subscribed once or twice"""
    return [sc["sub_t"]] + ([sc["sub2_t"]] if sc.get("sub2_t") is not None else [])


def run_real_multi(sc, build, follow=False):
    w = vt.World(sc.get("clock", "test"))
    w.as_observer = bool(sc.get("as_observer"))
    vt.make_sources(w, sc["sources"])
    obs = build(w, sc)
    recs = []
    for i, t in enumerate(sub_times(sc)):
        rec = vt.Recorder(w, "r" if i == 0 else "r%d" % i, follow=follow)
        recs.append(rec)
        if i == 0 and sc.get("feedback"):
            _arm_feedback(w, rec, sc["feedback"])
        w.at(t, (lambda rec=rec: _sub(rec, obs)))
    w.run(sc["horizon"])
    return w, recs


def _arm_feedback(w, rec, fb):
    """the consumer reacts to its i-th element by pushing a follow-up element into the (hot) source, synchronously"""
    n = [0]

    def on_each(v):
        i = n[0]
        n[0] += 1
        fv = fb["at"].get(str(i))
        if fv is not None:
            w.fired.append((w.tick(), "subscriber:feeds_back_into:%s" % fb["sid"], i))
            w.sources[fb["sid"]]._broadcast("N", vt.dec(fv))

    rec.on_each = on_each


def gen_feedback(rng, sc, sid, values=None, p=0.07):
    """(generators) with probability p, and only over a hot source subscribed once, add a feedback plan to the scenario"""
    spec = [s for s in sc["sources"] if s["id"] == sid][0]
    if spec["kind"] != "hot" or rng.random() >= p:
        return
    sc.pop("sub2_t", None)
    at = {}
    for i in sorted(rng.sample(range(0, 4), rng.choice([1, 1, 2]))):
        at[str(i)] = rng.choice(values) if values else {"t": ["fb", i]}
    sc["feedback"] = {"sid": sid, "at": at}


def _count_feedback(w, out):
    n = len([f for f in w.fired if f[1].startswith("subscriber:feeds_back_into:")])
    if n:
        out.faults["subscriber_feeds_back"] += n


def run_real(sc, build, follow=False):
    w, recs = run_real_multi(sc, build, follow)
    return w, recs[0]


def _sub(rec, obs):
    try:
        rec.subscribe(obs)
    except Exception as e:  # noqa: BLE001
        rec.events.append((rec.w.tick(), rec.w.now(), "E", e))


def run_model(sc, model, t=None):
    eng = evmodel.Engine(sc["sources"])
    eng.now = float(sc["sub_t"] if t is None else t)
    eng.feedback = sc.get("feedback")
    model(eng, sc)
    eng.run(sc["horizon"])
    return eng


def real_intervals(w, drop_empty=False):
    out = {}
    for sid, s in w.sources.items():
        iv = [(float(x.sub_t), None if x.disp_t is None else float(x.disp_t)) for x in s.subs]
        if drop_empty:
            iv = [i for i in iv if i[0] != i[1]]
        if iv:
            out[sid] = iv
    return out


def compare(sc, build, model, out, desc, check_intervals=True, drop_empty=False, post=None):
    """Run the real pipeline (the same observable object subscribed at every instant of sub_times) and the reference
    interpreter once per subscription; fill `out`.  Returns (w, rec, eng) of the first subscription or None on a tie."""
    w, recs = run_real_multi(sc, build)
    out.sim_time = sc["horizon"]
    _count_feedback(w, out)
    first = None
    all_model_iv = {}
    for i, (t, rec) in enumerate(zip(sub_times(sc), recs)):
        tag = desc if i == 0 else "%s [second subscription of the same observable at t=%s]" % (desc, t)
        got = models.norm(rec.events_kv())
        g = vt.grammar_violation(rec)
        if g:
            out.bad("grammar", "%s: %s" % (tag, g))
        if w.escaped:
            out.bad("escaped", "%s: %r" % (tag, w.escaped[0][2:]))
        try:
            eng = run_model(sc, model, t)
        except models.Tie:
            out.probes["tie_skipped"] += 1
            out.digest = ("tie", desc)
            return None
        want = models.norm(eng.out)
        if i == 0:
            out.nontrivial = len(got) >= 2
            first = (w, rec, eng)
        else:
            out.probes["second_subscription_checked"] += 1
        if want != got:
            out.bad("model-mismatch", "%s: expected %s, got %s" % (tag, want[:12], got[:12]))
            return first
        for k, v in eng.intervals().items():
            all_model_iv.setdefault(k, []).extend(v)
    if check_intervals:
        ri = real_intervals(w, drop_empty)
        ri = {k: sorted(v, key=repr) for k, v in ri.items()}
        mi = {k: sorted([i for i in v if not (drop_empty and i[0] == i[1])], key=repr) for k, v in all_model_iv.items()}
        mi = {k: v for k, v in mi.items() if v}
        if ri != mi:
            out.bad("subscription-intervals", "%s: source subscription intervals %s, expected %s" % (desc, ri, mi))
    return first
