"""Shared harness for the multi-source reference-model checks (C10-C13)."""
from __future__ import annotations

from simlib import evmodel, models, vt
from simlib.core import Outcome


def run_real(sc, build, follow=False):
    w = vt.World(sc.get("clock", "test"))
    vt.make_sources(w, sc["sources"])
    obs = build(w, sc)
    rec = vt.Recorder(w, "r", follow=follow)
    w.at(sc["sub_t"], lambda: _sub(rec, obs))
    w.run(sc["horizon"])
    return w, rec


def _sub(rec, obs):
    try:
        rec.subscribe(obs)
    except Exception as e:  # noqa: BLE001
        rec.events.append((rec.w.tick(), rec.w.now(), "E", e))


def run_model(sc, model):
    eng = evmodel.Engine(sc["sources"])
    eng.now = float(sc["sub_t"])
    model(eng, sc)
    eng.run(sc["horizon"])
    return eng


def real_intervals(w, drop_empty=False):
    out = {}
    for sid, s in w.sources.items():
        iv = [(float(x.sub_t), None if x.disp_t is None else float(x.disp_t)) for x in s.subs]
        if drop_empty:
            iv = [i for i in iv if i[0] != i[1]]
        if iv:
            out[sid] = iv
    return out


def compare(sc, build, model, out, desc, check_intervals=True, drop_empty=False, post=None):
    """Run the real pipeline and the reference interpreter; fill `out`.  Returns (w, rec, eng) or None on a tie."""
    w, rec = run_real(sc, build)
    got = models.norm(rec.events_kv())
    out.sim_time = sc["horizon"]
    g = vt.grammar_violation(rec)
    if g:
        out.bad("grammar", "%s: %s" % (desc, g))
    if w.escaped:
        out.bad("escaped", "%s: %r" % (desc, w.escaped[0][2:]))
    try:
        eng = run_model(sc, model)
    except models.Tie:
        out.probes["tie_skipped"] += 1
        out.digest = ("tie", desc)
        return None
    want = models.norm(eng.out)
    out.nontrivial = len(got) >= 2
    if want != got:
        out.bad("model-mismatch", "%s: expected %s, got %s" % (desc, want[:12], got[:12]))
        return w, rec, eng
    if check_intervals:
        ri = real_intervals(w, drop_empty)
        mi = {k: [i for i in v if not (drop_empty and i[0] == i[1])] for k, v in eng.intervals().items()}
        mi = {k: v for k, v in mi.items() if v}
        if ri != mi:
            out.bad("subscription-intervals", "%s: source subscription intervals %s, expected %s" % (desc, ri, mi))
    return w, rec, eng
