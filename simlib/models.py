"""Small executable reference models ("same interface, trivial inside").

Every model maps a conforming timed event list
    [(t, 'N', value) ..., optionally (t, 'C', None) | (t, 'E', exc)]
as seen by an operator subscribed at t0, to the timed event list it must emit.
They are written from the property statements / operator documentation, not
from the implementation.
"""
from __future__ import annotations

import functools

from simlib import vt
from simlib.vt import dec as V

from reactivex.internal.exceptions import ArgumentOutOfRangeException, SequenceContainsNoElementsError


def fn(spec, pool=None):
    if spec is None:
        return None
    return vt.pure(spec["k"], spec.get("m", 2), spec.get("r", 0), pool)


def ekey(e):
    """Comparable key of an error value."""
    if isinstance(e, vt.SourceError):
        return ("src", e.tag)
    if isinstance(e, type):
        return ("exc", e.__name__)
    return ("exc", type(e).__name__)


def norm(evs):
    """(t, kind, comparable) for model output or recorder output."""
    out = []
    for t, k, v in evs:
        if k == "N":
            out.append((float(t), "N", vt.vkey(v)))
        elif k == "E":
            out.append((float(t), "E", ekey(v)))
        else:
            out.append((float(t), "C", None))
    return out


def split(evs):
    """-> (elements [(t, v)], terminal (t, kind, v) | None)"""
    els = [(t, v) for t, k, v in evs if k == "N"]
    term = None
    for e in evs:
        if e[1] in "CE":
            term = e
            break
    return els, term


def _guard(f):
    """Element-wise model body: a TypeError etc. raised by an ill-typed callback
    terminates the output with that error at that element (C09's rule)."""
    return f


# ------------------------------------------------------------------ C05 element-wise

def m_map(a, evs, t0):
    f = fn(a.get("f")) or (lambda x: x)
    return [(t, k, f(v) if k == "N" else v) for t, k, v in evs]


def m_map_indexed(a, evs, t0):
    f = fn(a["f"])
    out = []
    i = 0
    for t, k, v in evs:
        if k == "N":
            out.append((t, k, f(v, i)))
            i += 1
        else:
            out.append((t, k, v))
    return out


def m_filter(a, evs, t0):
    f = fn(a["f"])
    return [(t, k, v) for t, k, v in evs if k != "N" or f(v)]


def m_filter_indexed(a, evs, t0):
    f = fn(a["f"])
    out = []
    i = 0
    for t, k, v in evs:
        if k == "N":
            if f(v, i):
                out.append((t, k, v))
            i += 1
        else:
            out.append((t, k, v))
    return out


def m_take(a, evs, t0):
    n = a["n"]
    if n == 0:
        return [(t0, "C", None)]
    out = []
    c = 0
    for t, k, v in evs:
        out.append((t, k, v))
        if k == "N":
            c += 1
            if c == n:
                out.append((t, "C", None))
                break
    return out


def m_skip(a, evs, t0):
    out = []
    c = 0
    for t, k, v in evs:
        if k == "N":
            c += 1
            if c > a["n"]:
                out.append((t, k, v))
        else:
            out.append((t, k, v))
    return out


def _take_while(a, evs, t0, indexed):
    f = fn(a["f"])
    out = []
    i = 0
    for t, k, v in evs:
        if k != "N":
            out.append((t, k, v))
            break
        ok = f(v, i) if indexed else f(v)
        i += 1
        if ok:
            out.append((t, k, v))
        else:
            if a.get("inc"):
                out.append((t, k, v))
            out.append((t, "C", None))
            break
    return out


def m_take_while(a, evs, t0):
    return _take_while(a, evs, t0, False)


def m_take_while_indexed(a, evs, t0):
    return _take_while(a, evs, t0, True)


def _skip_while(a, evs, t0, indexed):
    f = fn(a["f"])
    out = []
    i = 0
    running = False
    for t, k, v in evs:
        if k != "N":
            out.append((t, k, v))
            continue
        if not running:
            ok = f(v, i) if indexed else f(v)
            i += 1
            if not ok:
                running = True
        if running:
            out.append((t, k, v))
    return out


def m_skip_while(a, evs, t0):
    return _skip_while(a, evs, t0, False)


def m_skip_while_indexed(a, evs, t0):
    return _skip_while(a, evs, t0, True)


def m_distinct(a, evs, t0):
    key = fn(a.get("key")) or (lambda x: x)
    cmp = fn(a.get("cmp")) or (lambda x, y: x == y)
    seen = []
    out = []
    for t, k, v in evs:
        if k != "N":
            out.append((t, k, v))
            continue
        kk = key(v)
        if not any(cmp(s, kk) for s in seen):
            seen.append(kk)
            out.append((t, k, v))
    return out


def m_distinct_until_changed(a, evs, t0):
    key = fn(a.get("key")) or (lambda x: x)
    cmp = fn(a.get("cmp")) or (lambda x, y: x == y)
    out = []
    has = False
    cur = None
    for t, k, v in evs:
        if k != "N":
            out.append((t, k, v))
            continue
        kk = key(v)
        if not has or not cmp(cur, kk):
            has = True
            cur = kk
            out.append((t, k, v))
    return out


def m_pairwise(a, evs, t0):
    out = []
    has = False
    prev = None
    for t, k, v in evs:
        if k != "N":
            out.append((t, k, v))
            continue
        if has:
            out.append((t, k, (prev, v)))
        has = True
        prev = v
    return out


def m_start_with(a, evs, t0):
    return [(t0, "N", V(x)) for x in a["v"]] + list(evs)


def m_default_if_empty(a, evs, t0):
    els, term = split(evs)
    if term and term[1] == "C" and not els:
        return [(term[0], "N", V(a["d"])), term]
    return list(evs)


def m_ignore_elements(a, evs, t0):
    return [e for e in evs if e[1] != "N"]


def m_take_last(a, evs, t0):
    els, term = split(evs)
    if term is None:
        return []
    if term[1] == "E":
        return [term]
    n = a["n"]
    last = els[max(0, len(els) - n):] if n else []
    return [(term[0], "N", v) for _, v in last] + [term]


def m_skip_last(a, evs, t0):
    els, term = split(evs)
    n = a["n"]
    out = []
    for i, (t, v) in enumerate(els):
        if i >= n:
            out.append((t, "N", els[i - n][1]))
    if term:
        out.append(term)
    return out


def m_take_last_buffer(a, evs, t0):
    els, term = split(evs)
    if term is None:
        return []
    if term[1] == "E":
        return [term]
    n = a["n"]
    last = [v for _, v in (els[max(0, len(els) - n):] if n else [])]
    return [(term[0], "N", last), term]


def _element_at(a, evs, t0, has_default):
    els, term = split(evs)
    n = a["n"]
    if n < len(els):
        t, v = els[n]
        return [(t, "N", v), (t, "C", None)]
    if term is None:
        return []
    if term[1] == "E":
        return [term]
    if has_default:
        return [(term[0], "N", V(a["d"])), term]
    return [(term[0], "E", ArgumentOutOfRangeException)]


def m_element_at(a, evs, t0):
    return _element_at(a, evs, t0, False)


def m_element_at_or_default(a, evs, t0):
    return _element_at(a, evs, t0, True)


def _find(a, evs, t0, index):
    f = fn(a["f"])
    i = 0
    for t, k, v in evs:
        if k == "N":
            if f(v):
                return [(t, "N", i if index else v), (t, "C", None)]
            i += 1
        elif k == "C":
            return [(t, "N", -1 if index else None), (t, "C", None)]
        else:
            return [(t, k, v)]
    return []


def m_find(a, evs, t0):
    return _find(a, evs, t0, False)


def m_find_index(a, evs, t0):
    return _find(a, evs, t0, True)


def m_starmap(a, evs, t0):
    f = fn(a["f"])
    return [(t, k, f(*v) if k == "N" else v) for t, k, v in m_pairwise({}, evs, t0)]


def m_starmap_indexed(a, evs, t0):
    f = fn(a["f"])
    out = []
    i = 0
    for t, k, v in m_pairwise({}, evs, t0):
        if k == "N":
            out.append((t, k, f(*v, i)))
            i += 1
        else:
            out.append((t, k, v))
    return out


def m_pluck(a, evs, t0):
    return [(t, k, v[a["key"]] if k == "N" else v) for t, k, v in m_pairwise({}, evs, t0)]


class MNote:
    """Model-side notification, compared through vkey like the library's."""

    def __init__(self, kind, value=None, exception=None):
        self.kind, self.value, self.exception = kind, value, exception

    def __eq__(self, o):  # the library documents notification equality as comparison of their string forms
        return isinstance(o, MNote) and self.kind == o.kind and str(self.value) == str(o.value) and str(self.exception) == str(o.exception)

    __hash__ = None


def m_materialize(a, evs, t0):
    out = []
    for t, k, v in evs:
        if k == "N":
            out.append((t, "N", MNote("N", v)))
        elif k == "C":
            out.append((t, "N", MNote("C")))
            out.append((t, "C", None))
        else:
            out.append((t, "N", MNote("E", exception=v)))
            out.append((t, "C", None))
    return out


def m_dematerialize(a, evs, t0):
    return list(evs)


def m_dematerialize_mapped(a, evs, t0):
    out = []
    for t, k, v in evs:
        if k != "N":
            out.append((t, k, v))
            break
        r = vt.h(v) % 7
        if r == 0:
            out.append((t, "C", None))
            break
        if r == 1:
            out.append((t, "E", vt.SourceError("demat")))
            break
        out.append((t, "N", ("d", v)))
    return out


def m_identity(a, evs, t0):
    return list(evs)


# ------------------------------------------------------------------ C07 slice

def m_slice(a, evs, t0):
    """list(source)[start:stop:step] then completion; errors pass through iff they arrive
    before the slice is complete.  Emission times are not part of C07 (only values + terminal)."""
    els, term = split(evs)
    vals = [v for _, v in els]
    want = vals[a.get("start"):a.get("stop"):a.get("step")]
    return want, term


# ------------------------------------------------------------------ C06 aggregates

def _agg(evs, compute, empty_error=False):
    """Emit compute(values) at completion; pass errors through."""
    els, term = split(evs)
    if term is None:
        return []
    if term[1] == "E":
        return [term]
    vals = [v for _, v in els]
    if empty_error and not vals:
        return [(term[0], "E", SequenceContainsNoElementsError)]
    try:
        r = compute(vals)
    except _ModelError as me:
        return [(term[0], "E", me.exc)]
    return [(term[0], "N", r), term]


class _ModelError(Exception):
    def __init__(self, exc):
        self.exc = exc


def m_reduce(a, evs, t0):
    f = fn(a["f"])
    if a.get("seed"):
        return _agg(evs, lambda vs: functools.reduce(f, vs, V(a["seed"]["v"])))
    return _agg(evs, lambda vs: functools.reduce(f, vs), empty_error=True)


def m_scan(a, evs, t0):
    f = fn(a["f"])
    out = []
    has = bool(a.get("seed"))
    acc = V(a["seed"]["v"]) if has else None
    for t, k, v in evs:
        if k != "N":
            out.append((t, k, v))
            continue
        if has:
            acc = f(acc, v)
        else:
            acc = v
            has = True
        out.append((t, "N", acc))
    return out


def m_count(a, evs, t0):
    f = fn(a.get("f"))
    return _agg(evs, lambda vs: len([v for v in vs if f is None or f(v)]))


def m_sum(a, evs, t0):
    f = fn(a["f"])
    return _agg(evs, lambda vs: sum(f(v) for v in vs))


def m_average(a, evs, t0):
    f = fn(a["f"])
    return _agg(evs, lambda vs: sum(f(v) for v in vs) / len(vs), empty_error=True)


def m_min(a, evs, t0):
    f = fn(a["f"])
    return _agg(evs, lambda vs: min(f(v) for v in vs), empty_error=True)


def m_max(a, evs, t0):
    f = fn(a["f"])
    return _agg(evs, lambda vs: max(f(v) for v in vs), empty_error=True)


def m_min_by(a, evs, t0):
    f = fn(a["f"])

    def comp(vs):
        if not vs:
            return []
        m = min(f(v) for v in vs)
        return [v for v in vs if f(v) == m]

    return _agg(evs, comp)


def m_max_by(a, evs, t0):
    f = fn(a["f"])

    def comp(vs):
        if not vs:
            return []
        m = max(f(v) for v in vs)
        return [v for v in vs if f(v) == m]

    return _agg(evs, comp)


def m_to_list(a, evs, t0):
    return _agg(evs, list)


def m_to_set(a, evs, t0):
    f = fn(a["f"])
    return _agg(evs, lambda vs: set(f(v) for v in vs))


def m_to_dict(a, evs, t0):
    f = fn(a["f"])
    g = fn(a.get("g")) or (lambda x: x)
    return _agg(evs, lambda vs: {f(v): g(v) for v in vs})


def _first(a, evs, t0, has_default):
    f = fn(a.get("f"))
    for t, k, v in evs:
        if k == "N":
            if f is None or f(v):
                return [(t, "N", v), (t, "C", None)]
        elif k == "C":
            if has_default:
                return [(t, "N", V(a["d"])), (t, "C", None)]
            return [(t, "E", SequenceContainsNoElementsError)]
        else:
            return [(t, k, v)]
    return []


def m_first(a, evs, t0):
    return _first(a, evs, t0, False)


def m_first_or_default(a, evs, t0):
    return _first(a, evs, t0, True)


def _last(a, evs, t0, has_default):
    f = fn(a.get("f"))

    def comp(vs):
        ms = [v for v in vs if f is None or f(v)]
        if ms:
            return ms[-1]
        if has_default:
            return V(a["d"])
        raise _ModelError(SequenceContainsNoElementsError)

    return _agg(evs, comp)


def m_last(a, evs, t0):
    return _last(a, evs, t0, False)


def m_last_or_default(a, evs, t0):
    return _last(a, evs, t0, True)


def _single(evs, f, has_default, default):
    """single: error at the second matching element; value at completion."""
    seen = 0
    val = None
    for t, k, v in evs:
        if k == "N":
            if f is None or f(v):
                seen += 1
                if seen == 2:
                    return [(t, "E", Exception)]
                val = v
        elif k == "C":
            if seen == 1:
                return [(t, "N", val), (t, "C", None)]
            if has_default:
                return [(t, "N", default), (t, "C", None)]
            return [(t, "E", SequenceContainsNoElementsError)]
        else:
            return [(t, k, v)]
    return []


def m_single(a, evs, t0):
    return _single(evs, fn(a.get("f")), False, None)


def m_single_or_default(a, evs, t0):
    return _single(evs, fn(a.get("f")), True, V(a["d"]))


def m_single_or_default_async(a, evs, t0):
    return _single(evs, None, a["has"], V(a["d"]))


def _short(evs, decide, at_end):
    """Short-circuit aggregate: decide(v) -> result or None at each element; at_end at completion."""
    for t, k, v in evs:
        if k == "N":
            r = decide(v)
            if r is not None:
                return [(t, "N", r[0]), (t, "C", None)]
        elif k == "C":
            return [(t, "N", at_end), (t, "C", None)]
        else:
            return [(t, k, v)]
    return []


def m_all(a, evs, t0):
    f = fn(a["f"])
    return _short(evs, lambda v: None if f(v) else (False,), True)


def m_some(a, evs, t0):
    f = fn(a.get("f"))
    return _short(evs, lambda v: (True,) if (f is None or f(v)) else None, False)


def m_contains(a, evs, t0):
    cmp = fn(a.get("cmp")) or (lambda x, y: x == y)
    target = V(a["v"])
    return _short(evs, lambda v: (True,) if cmp(v, target) else None, False)


def m_is_empty(a, evs, t0):
    return _short(evs, lambda v: (False,), True)


class Tie(Exception):
    """The scenario contains a heterogeneous same-instant tie the property does not order."""


def seq_equal_model(ea, eb, cmp):
    """Event-driven reference: pair the i-th elements; emit False at the first deciding event
    (mismatching pair, or an element arriving for a side whose partner already completed with
    nothing buffered), True when both completed with all pairs equal.  Raises Tie when two
    events of different sources share an instant (their order is an implementation detail)."""
    ta = set(e[0] for e in ea)
    if any(e[0] in ta for e in eb):
        raise Tie()
    evs = sorted([(t, 0, k, v) for t, k, v in ea] + [(t, 1, k, v) for t, k, v in eb], key=lambda e: e[0])
    q = [[], []]
    done = [False, False]
    for t, side, k, v in evs:
        o = 1 - side
        if k == "E":
            return [(t, "E", v)]
        if k == "N":
            if q[o]:
                w = q[o].pop(0)
                pair = (v, w) if side == 0 else (w, v)
                if not cmp(*pair):
                    return [(t, "N", False), (t, "C", None)]
            elif done[o]:
                return [(t, "N", False), (t, "C", None)]
            else:
                q[side].append(v)
        else:
            done[side] = True
            if q[side]:
                continue
            if q[o]:
                return [(t, "N", False), (t, "C", None)]
            if done[o]:
                return [(t, "N", True), (t, "C", None)]
    return []


def m_sequence_equal_iter(a, evs, t0):
    cmp = fn(a.get("cmp")) or (lambda x, y: x == y)
    other = [(t0, "N", V(x)) for x in a["v"]] + [(t0, "C", None)]
    return seq_equal_model(list(evs), other, cmp)


ELEMENTWISE = {
    "map": m_map, "map_none": m_identity, "map_indexed": m_map_indexed, "filter": m_filter, "filter_indexed": m_filter_indexed,
    "take": m_take, "skip": m_skip, "take_while": m_take_while, "take_while_indexed": m_take_while_indexed,
    "skip_while": m_skip_while, "skip_while_indexed": m_skip_while_indexed, "distinct": m_distinct,
    "distinct_until_changed": m_distinct_until_changed, "pairwise": m_pairwise, "start_with": m_start_with,
    "default_if_empty": m_default_if_empty, "ignore_elements": m_ignore_elements, "take_last": m_take_last,
    "skip_last": m_skip_last, "take_last_buffer": m_take_last_buffer, "element_at": m_element_at,
    "element_at_or_default": m_element_at_or_default, "find": m_find, "find_index": m_find_index,
    "starmap": m_starmap, "pluck": m_pluck, "materialize": m_materialize,
    "dematerialize": m_dematerialize, "dematerialize_mapped": m_dematerialize_mapped, "as_observable": m_identity,
}

AGGREGATES = {
    "reduce": m_reduce, "scan": m_scan, "count": m_count, "sum": m_sum, "average": m_average, "min": m_min, "max": m_max,
    "min_by": m_min_by, "max_by": m_max_by, "to_list": m_to_list, "to_iterable": m_to_list, "to_set": m_to_set, "to_dict": m_to_dict,
    "first": m_first, "first_or_default": m_first_or_default, "last": m_last, "last_or_default": m_last_or_default,
    "single": m_single, "single_or_default": m_single_or_default, "single_or_default_async": m_single_or_default_async,
    "all": m_all, "some": m_some, "contains": m_contains, "is_empty": m_is_empty, "sequence_equal_iter": m_sequence_equal_iter,
}
